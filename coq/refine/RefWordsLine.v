(* SensitiveWordAnonymizer.anonymize and _lookup_anon_word as GENERATED from the source (gen/G_fn_sir2.v) against the model's anonymize_words_line /
   anonymize_word_token: search, _split_line, the loop over the tokens (a list comprehension whose elements update the replacement cache), the
   reserved-word test on the lower-cased token, pattern.sub with the bound method _lookup_anon_word as callback (refine/RefSub.v), and the
   cached replacement function of refine/RefWord.v.  Premise: the line is ASCII (the model restricts case folding to ASCII). *)
From Coq Require Import String.
From Coq Require Import List ZArith NArith Bool Arith Lia.
Import ListNotations.
Require Import PyLib PyLib2 Str Rx RxFacts RxSub TextModel TotalWords G_fn_sir2 RefJun RefStr RefBase RefSplit RefSub RefWord.
Notation vstr := RefJun.vstr.

Definition ascii (s : str) : Prop := Forall (fun c => c < 128)%N s.
Lemma py_lower_vstr w : ascii w -> py_lower (vstr w) = Normal (vstr (lower_str w)).
Proof.
  intro H. unfold py_lower, RefJun.vstr.
  assert (A : ascii_only (map Z.of_N w) = true).
  { unfold ascii_only. apply forallb_forall. intros z Hz. apply in_map_iff in Hz as (c & <- & Hc). unfold ascii in H. rewrite Forall_forall in H. specialize (H c Hc). apply Z.ltb_lt. lia. }
  rewrite A. f_equal. f_equal. unfold lower_str. rewrite !map_map. apply map_ext. intro c. unfold lower_ascii.
  replace (65 <=? Z.of_N c)%Z with (65 <=? c)%N by (destruct (N.leb_spec 65 c); [symmetry; apply Z.leb_le|symmetry; apply Z.leb_gt]; lia).
  replace (Z.of_N c <=? 90)%Z with (c <=? 90)%N by (destruct (N.leb_spec c 90); [symmetry; apply Z.leb_le|symmetry; apply Z.leb_gt]; lia).
  destruct ((65 <=? c)%N && (c <=? 90)%N); lia.
Qed.

Section W.
Variable rx_of : pyval -> option re.
Definition words_call (f a : pyval) : PyLib.res :=
  match f with
  | VFun n => if (if list_eq_dec Z.eq_dec n (of_string "search") then true else false) then
                match a with VList [h; VStr l] => match rx_of h with Some rx => match search (to_strz l) rx with Some _ => Normal (VBool true) | None => Normal VNone end | None => Exc TypeError end
                           | _ => Exc TypeError end
              else sub_call rx_of f a
  | _ => Exc TypeError
  end.
Lemma w_search h rx l : rx_of h = Some rx -> words_call (VFun (of_string "search")) (VList [h; vstr l]) = match search l rx with Some _ => Normal (VBool true) | None => Normal VNone end.
Proof. intro H. unfold RefJun.vstr. cbn. now rewrite H, to_strz_vstr. Qed.
Lemma w_finditer h rx l : rx_of h = Some rx -> words_call (VFun (of_string "finditer")) (VList [h; vstr l]) = Normal (VList (map (enc_match l h) (matches l (S (length l)) rx 0))).
Proof. intro H. change (words_call (VFun (of_string "finditer")) ?x) with (sub_call rx_of (VFun (of_string "finditer")) x). now apply call_finditer. Qed.
Lemma w_group0 h l a b : words_call (VFun (of_string "group")) (VList [VTuple [h; vstr l; VInt (Z.of_nat a); VInt (Z.of_nat b)]; VInt 0]) = Normal (vstr (substr l a b)).
Proof. change (words_call (VFun (of_string "group")) ?x) with (sub_call rx_of (VFun (of_string "group")) x). apply call_group0. Qed.

Variables (cls : list Z) (rw rh : pyval) (a : word_anonymizer).
Definition words_contract (pc : pyval -> pyval -> PyLib.res) : Prop :=
  (forall l, pc (VFun (of_string "search")) (VList [rh; vstr l]) = match search l (w_regex a) with Some _ => Normal (VBool true) | None => Normal VNone end) /\
  sub_contract pc rh (w_regex a).
Lemma words_call_contract : rx_of rh = Some (w_regex a) -> words_contract words_call.
Proof.
  intro H. split; [intro l; now apply w_search|]. split; intros; [now apply w_finditer|apply w_group0].
Qed.
Variable pc : pyval -> pyval -> PyLib.res.
Hypothesis Hpc : words_contract pc.
Notation O d := (wobj cls rw rh (vres (w_conflicting a)) (w_salt a) d).
Definition w_cb (w : str) (st : bool) (i j : nat) (_ : caps) : bool * list chr :=
  match word_pseudonym (w_salt a) (substr w i j) with Done p => (st, p) | Raised _ => (false, []) end.
Lemma w_cb_all w : forall ms st reps, run_cb (w_cb w) st ms = (true, reps) ->
  st = true /\ Forall2 (fun m rep => word_pseudonym (w_salt a) (substr w (fst (fst m)) (snd (fst m))) = Done rep) ms reps.
Proof.
  induction ms as [|[[i j] c] ms IH]; intros st reps; cbn [run_cb].
  - intros [= -> <-]. split; [reflexivity|constructor].
  - unfold w_cb at 1. destruct (word_pseudonym (w_salt a) (substr w i j)) as [p|e] eqn:El.
    + destruct (run_cb (w_cb w) st ms) as [st2 reps'] eqn:Er. intros [= -> <-]. destruct (IH st reps' Er) as [-> HF]. split; [reflexivity|]. constructor; [exact El|exact HF].
    + destruct (run_cb (w_cb w) false ms) as [st2 reps'] eqn:Er. intros [= -> <-]. destruct (IH false reps' Er) as [Hf _]. discriminate.
Qed.

Theorem gen_words_anonymize_refines fuel line l d : cache_ok (w_salt a) d -> ascii line ->
  anonymize_words_line a line = Done l ->
  exists d', gen_SensitiveWordAnonymizer__anonymize pc fuel (O d) (vstr line) = Normal (VTuple [vstr l; O d']) /\ cache_ok (w_salt a) d'.
Proof.
  intros Hd Hasc. unfold anonymize_words_line, gen_SensitiveWordAnonymizer__anonymize.
  assert (Grx : forall d0, py_getattr (O d0) "sens_regex" = Normal rh) by reflexivity.
  assert (Gcw : forall d0, py_getattr (O d0) "conflicting_words" = Normal (vres (w_conflicting a))) by reflexivity.
  rewrite Grx. cbn [PyLib.bind]. rewrite (proj1 Hpc line).
  destruct (search line (w_regex a)) as [m0|]; cbn [PyLib.bind is_none negb truthy PyLib.bindS call].
  2:{ intros [= <-]. exists d. split; [reflexivity|exact Hd]. }
  rewrite gen_split_line_refines. destruct (split_line line) as [[leading words] trailing] eqn:Esp. cbn [PyLib.bind unpack3 py_iter].
  assert (Hwa : Forall ascii words).
  { assert (words = split_ws line) by (unfold split_line in Esp; now injection Esp as _ <- _). subst words.
    apply Forall_forall. intros w Hw. apply Forall_forall. intros c Hc. unfold ascii in Hasc. rewrite Forall_forall in Hasc. apply Hasc. eapply TotalWords.split_ws_incl; eauto. }
  match goal with |- context [py_for (map vstr words) ?b _] => set (B := b) end.
  destruct (omap (anonymize_word_token a) words) as [ws|e] eqn:Eom; cbn [obind]; [|discriminate]. intros [= <-].
  (* the loop over the tokens *)
  assert (Hloop : forall ws0 outs d0 acc j6 j8 j9, Forall ascii ws0 -> cache_ok (w_salt a) d0 -> omap (anonymize_word_token a) ws0 = Done outs ->
            exists d1 j6' j8' j9', py_for (map vstr ws0) B (O d0, vstr line, VList (map vstr words), vstr leading, vstr trailing, j6, VList acc, j8, j9)
                       = Normal (O d1, vstr line, VList (map vstr words), vstr leading, vstr trailing, j6', VList (acc ++ map vstr outs), j8', j9') /\ cache_ok (w_salt a) d1).
  { induction ws0 as [|w ws0 IH]; intros outs d0 acc j6 j8 j9 Hasc0 Hd0; cbn [omap map py_for].
    - intros [= <-]. rewrite app_nil_r. do 4 eexists. split; [reflexivity|exact Hd0].
    - inversion Hasc0 as [|? ? Hw Hrest]; subst.
      destruct (anonymize_word_token a w) as [o|e] eqn:Etok; cbn [obind]; [|discriminate].
      destruct (omap (anonymize_word_token a) ws0) as [os|e] eqn:Eos; cbn [obind]; [|discriminate]. intros [= <-].
      unfold B at 1. cbv beta iota. rewrite (py_lower_vstr w Hw). cbn [PyLib.bind]. rewrite Gcw. cbn [PyLib.bind]. rewrite py_in_vres. cbn [PyLib.bind truthy].
      unfold anonymize_word_token in Etok.
      destruct (mem_str (lower_str w) (w_conflicting a)).
      + injection Etok as <-. cbn [PyLib.bind unpack2 py_list_append].
        destruct (IH os d0 (acc ++ [vstr w]) (vstr w) j8 j9 Hrest Hd0 eq_refl) as (d1 & j6' & j8' & j9' & El & Hd1). rewrite El.
        exists d1, j6', j8', j9'. split; [|exact Hd1]. cbn [map]. now rewrite <- app_assoc.
      + (* substitution inside the token *)
        unfold sub_fn in Etok. destruct (nullable (w_regex a)); [discriminate|].
        fold (w_cb w) in Etok. rewrite sub_loop_fold in Etok.
        set (ms := matches w (S (slen w)) (w_regex a) 0) in *. destruct (run_cb (w_cb w) true ms) as [st reps] eqn:Er. destruct st; [|discriminate]. injection Etok as <-.
        destruct (w_cb_all w ms true reps Er) as [_ HF].
        rewrite Grx. cbn [PyLib.bind]. rewrite (proj1 (proj2 Hpc) w). change (matches w (S (Datatypes.length w)) (w_regex a) 0) with ms. cbn [PyLib.bind py_iter].
        match goal with |- context [py_for (map (enc_match w rh) ms) ?b _] => set (IB := b) end.
        assert (Hin : forall ms0 reps0 dd racc jm, Forall2 (fun m rep => word_pseudonym (w_salt a) (substr w (fst (fst m)) (snd (fst m))) = Done rep) ms0 reps0 -> cache_ok (w_salt a) dd ->
                  exists dd' jm', py_for (map (enc_match w rh) ms0) IB (O dd, vstr line, VList (map vstr words), vstr leading, vstr trailing, vstr w, VList acc, jm, VList racc)
                              = Normal (O dd', vstr line, VList (map vstr words), vstr leading, vstr trailing, vstr w, VList acc, jm', VList (racc ++ map vstr reps0)) /\ cache_ok (w_salt a) dd').
        { intros ms0 reps0 dd racc jm HF0. revert dd racc jm. induction HF0 as [|[[i j0] c] rep ms0 reps0 Hm _ IHin]; intros dd racc jm Hdd; cbn [map py_for].
          - rewrite app_nil_r. do 2 eexists. split; [reflexivity|exact Hdd].
          - cbn [fst snd] in Hm. unfold IB at 1. cbv beta iota. cbn [enc_match].
            replace (py_getitem (VTuple [VInt (Z.of_nat i); VInt (Z.of_nat j0); VTuple [rh; vstr w; VInt (Z.of_nat i); VInt (Z.of_nat j0)]]) (VInt 2))
              with (@Normal pyval (VTuple [rh; vstr w; VInt (Z.of_nat i); VInt (Z.of_nat j0)])) by reflexivity.
            cbn [PyLib.bind]. unfold gen_SensitiveWordAnonymizer___lookup_anon_word. rewrite (proj2 (proj2 Hpc)). cbn [PyLib.bind].
            pose proof (gen_word_replacement pc fuel cls rw rh (vres (w_conflicting a)) (w_salt a) dd (substr w i j0) Hdd) as Hrep. rewrite Hm in Hrep.
            destruct Hrep as (dd1 & Erep & Hdd1). rewrite Erep. cbn [PyLib.bind unpack2 call py_list_append].
            destruct (IHin dd1 (racc ++ [vstr rep]) (VTuple [rh; vstr w; VInt (Z.of_nat i); VInt (Z.of_nat j0)]) Hdd1) as (dd' & jm' & Ei & Hdd'). rewrite Ei.
            exists dd', jm'. split; [|exact Hdd']. cbn [map]. now rewrite <- app_assoc. }
        destruct (Hin ms reps d0 [] j8 HF Hd0) as (dd' & jm' & Ei & Hdd'). rewrite Ei. cbn [PyLib.bind app].
        rewrite py_stitch_refines by (pose proof (run_cb_length (w_cb w) ms true) as Hlen; rewrite Er in Hlen; exact Hlen).
        cbn [PyLib.bind unpack2 py_list_append].
        destruct (IH os dd' (acc ++ [vstr (stitch3 w 0 ms reps)]) (vstr w) j8 j9 Hrest Hdd' eq_refl) as (d1 & j6' & j8' & j9' & El & Hd1).
        rewrite El. exists d1, j6', j8', j9'. split; [|exact Hd1]. cbn [map]. now rewrite <- app_assoc. }
  destruct (Hloop words ws d [] VNone VNone VNone Hwa Hd Eom) as (d1 & j6' & j8' & j9' & El & Hd1). rewrite El. cbn [PyLib.bind app].
  change (VStr [32%Z]) with (vstr [32%N]). rewrite py_join_vstr. cbn [PyLib.bind]. rewrite RefStr.py_add_vstr. cbn [PyLib.bind]. rewrite RefStr.py_add_vstr. cbn [PyLib.bind PyLib.bindS call].
  exists d1. split; [|exact Hd1]. now rewrite <- app_assoc.
Qed.
End W.

