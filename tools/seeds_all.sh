#!/bin/bash
# every quick check on the unchanged tree under seeds $1..$2 (default 0..9); prints only what is not OK
cd "$(dirname "$0")/.."
/venv/bin/python tools/setup.py >/dev/null 2>&1
for sd in $(seq ${1:-0} ${2:-9}); do
  for i in 01 02 03 04 05 06 07 08 09 10 11 12 13 14 15 16 17 18 19; do
    r=$(VERIF_SEED=$sd /venv/bin/python tools/check.py C$i 2>&1 | grep "^OK \|^VIOL" | tail -1)
    case "$r" in OK*) ;; *) echo "seed $sd C$i: $r"; cp out/replay_C${i}_$sd.json out/keep_replay_C${i}_$sd.json 2>/dev/null;; esac
  done
  echo "seed $sd done"
done
