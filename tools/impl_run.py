#!/venv/bin/python
"""Implementation side of the correspondence check.

Reads a JSON list of cases on stdin (each case = list of string fields, the same fields the Coq model's
`run_case` receives), runs the REAL netconan from /repo on each, and prints a JSON list of result strings
in the model's output format.  Always run in a child interpreter with PYTHONPATH=/repo.
"""
import io
import json
import logging
import sys

sys.path.insert(0, "/repo")
logging.disable(logging.CRITICAL)


def _exc(e):
    return "ERR"


# ---------------------------------------------------------------- IP integer level
def _salter(spec):
    from netconan.ip_anonymization import _generate_bit_from_hash

    if spec.startswith("md5:"):
        return spec[4:], None
    assert spec.startswith("tab:")
    ones = set("" if p == "e" else p for p in spec[4:].split("|"))
    return "s", (lambda salt, s, ones=ones: 1 if s in ones else 0)


def _run_ops(a, ops, width):
    out = []
    for op in ops.split(" "):
        try:
            if op[0] == "a":
                x = int(op[1:])
                out.append("ERR" if x >= 2**width else str(a.anonymize(x)))
            elif op[0] == "d":
                x = int(op[1:])
                out.append("ERR" if x >= 2**width else str(a.deanonymize(x)))
            elif op[0] == "s":
                out.append("T" if a.should_anonymize(int(op[1:])) else "F")
            elif op[0] == "m":
                out.append("T" if a._is_mask(int(op[1:])) else "F")
            elif op == "D":
                items = [
                    (int(k, 2), int(v, 2))
                    for k, v in a.cache.items()
                    if len(k) == a.length
                ]
                out.append(",".join("%d:%d" % kv for kv in items))
            else:
                out.append("BADCASE")
        except Exception as e:  # noqa
            out.append(_exc(e))
    return " ".join(out)


def _nets(s):
    import ipaddress
    from netconan.ip_anonymization import IpAnonymizer

    if s == "-":
        return []
    if s == "D":
        return None
    res = []
    for item in s.split(";"):
        if item == "P":
            res += list(IpAnonymizer.RFC_1918_NETWORKS)
        elif item == "D":
            res += list(IpAnonymizer.DEFAULT_PRESERVED_PREFIXES)
        else:
            a, l = item.split("/")
            res.append("%s/%s" % (ipaddress.IPv4Address(int(a)), l))
    return res


def run_ip(fields):
    from netconan import ip_anonymization as ipa

    cmd = fields[0]
    if cmd == "base":
        _, n, B, sal, ops = fields

        class W(ipa._BaseIpAnonymizer):
            @classmethod
            def get_addr_pattern(cls):
                return None

            @classmethod
            def make_addr(cls, s):
                return None

            @classmethod
            def make_addr_from_int(cls, i):
                return i

            def should_anonymize(self, i):
                return True

        salt, fn = _salter(sal)
        kw = {} if fn is None else {"salter": fn}
        a = W(salt, int(n), preserve_suffix=int(B), **kw)
        return _run_ops(a, ops, int(n))
    if cmd == "ip6":
        _, B, sal, ops = fields
        salt, fn = _salter(sal)
        kw = {} if fn is None else {"salter": fn}
        a = ipa.IpV6Anonymizer(salt, preserve_suffix=int(B), **kw)
        return _run_ops(a, ops, 128)
    if cmd == "ip4":
        _, B, sal, pfx, addrs, ops = fields
        salt, fn = _salter(sal)
        kw = {} if fn is None else {"salter": fn}
        try:
            a = ipa.IpAnonymizer(
                salt, _nets(pfx), _nets(addrs), preserve_suffix=int(B), **kw
            )
        except Exception as e:  # noqa
            return _exc(e)
        return _run_ops(a, ops, 32)
    return "BADCMD"


def run_jun(fields):
    from netconan.utils import juniper_secrets as js

    try:
        if fields[0] == "jenc":
            return "OK:" + js.juniper_nonrandom_encrypt(fields[1], fields[2])
        return "OK:" + js.juniper_decrypt(fields[1])
    except Exception as e:  # noqa
        return type(e).__name__


class _Sink:
    def __init__(self):
        self.parts = []

    def write(self, s):
        self.parts.append(s)


def run_pipe(fields):
    from netconan.anonymize_files import FileAnonymizer

    _, flags, salt, words, asnums, reserved, pfx, nets, b4, b6, orc = fields[:11]
    lines = fields[11:]

    def optlist(s):
        return None if s.startswith("N") else s[1:].split("\x01")

    try:
        fa = FileAnonymizer(
            anon_pwd="p" in flags,
            anon_ip="a" in flags,
            salt=salt,
            sensitive_words=optlist(words),
            undo_ip_anon="u" in flags,
            as_numbers=optlist(asnums),
            reserved_words=optlist(reserved),
            preserve_prefixes=None if pfx == "-" else _nets(pfx),
            preserve_networks=None if nets == "-" else _nets(nets),
            preserve_suffix_v4=int(b4),
            preserve_suffix_v6=int(b6),
        )
    except Exception as e:  # noqa
        return "RAISED:init:" + type(e).__name__
    sink = _Sink()
    records = []
    if "l" in flags:
        class H(logging.Handler):
            def emit(self, rec):
                records.append("%s:%s" % (rec.levelname, rec.getMessage()))
        logging.disable(logging.NOTSET)
        root = logging.getLogger()
        h = H(level=logging.INFO)
        root.addHandler(h)
        old = root.level
        root.setLevel(logging.INFO)
    try:
        fa.anonymize_io(io.StringIO("".join(lines)), sink)
    except Exception as e:  # noqa
        return "RAISED:" + type(e).__name__
    finally:
        if "l" in flags:
            root.removeHandler(h)
            root.setLevel(old)
            logging.disable(logging.CRITICAL)
    out = "\x03".join(sink.parts)
    if "l" in flags:
        out += "\x05" + "\x06".join(records)
    if "d" in flags:
        d = _Sink()
        fa.anonymizer4.dump_to_file(d)
        fa.anonymizer6.dump_to_file(d)
        out += "\x04" + "".join(d.parts)
    return out


def run_asr(fields):
    """["asr"; h; asn]: _generate_as_number_replacement with the hash value forced to h"""
    from netconan import sensitive_item_removal as sir

    class FakeMd5:
        def __init__(self, data):
            pass

        def hexdigest(self):
            return "%x" % int(fields[1])

    real = sir.md5
    sir.md5 = FakeMd5
    try:
        a = sir.AsNumberAnonymizer.__new__(sir.AsNumberAnonymizer)
        a.salt = "s"
        r = a._generate_as_number_replacement(fields[2])
        return "None" if r is None else "OK:" + r
    except Exception as e:  # noqa
        return type(e).__name__
    finally:
        sir.md5 = real


DISPATCH = {"asr": run_asr, "pipe": run_pipe, "base": run_ip, "ip4": run_ip, "ip6": run_ip, "jenc": run_jun, "jdec": run_jun}


def main():
    cases = json.load(sys.stdin)
    out = []
    for fields in cases:
        fn = DISPATCH.get(fields[0])
        try:
            out.append(fn(fields) if fn else "BADCMD")
        except Exception as e:  # noqa
            out.append("HARNESS-EXC:%s:%s" % (type(e).__name__, e))
    json.dump(out, sys.stdout)


if __name__ == "__main__":
    main()
