#!/venv/bin/python
"""Implementation side of the correspondence check.

Reads a JSON list of cases on stdin (each case = list of string fields, the same fields the Coq model's
`run_case` receives), runs the REAL netconan from /repo on each, and prints a JSON list of result strings
in the model's output format.  Always run in a child interpreter with PYTHONPATH=/repo.
"""
import io
import json
import logging
import sys

import os

sys.path.insert(0, os.environ.get("NETCONAN_REPO", "/repo"))
logging.disable(logging.CRITICAL)


def _exc(e):
    return "ERR"


# ---------------------------------------------------------------- IP integer level
def _salter(spec):
    from netconan.ip_anonymization import _generate_bit_from_hash

    if spec.startswith("md5:"):
        return spec[4:], None
    assert spec.startswith("tab:")
    ones = set("" if p == "e" else p for p in spec[4:].split("|"))
    return "s", (lambda salt, s, ones=ones: 1 if s in ones else 0)


def _run_ops(a, ops, width):
    out = []
    for op in ops.split(" "):
        try:
            if op[0] == "a":
                x = int(op[1:])
                out.append("ERR" if x >= 2**width else str(a.anonymize(x)))
            elif op[0] == "d":
                x = int(op[1:])
                out.append("ERR" if x >= 2**width else str(a.deanonymize(x)))
            elif op[0] == "s":
                out.append("T" if a.should_anonymize(int(op[1:])) else "F")
            elif op[0] == "m":
                out.append("T" if a._is_mask(int(op[1:])) else "F")
            elif op == "D":
                items = [
                    (int(k, 2), int(v, 2))
                    for k, v in a.cache.items()
                    if len(k) == a.length
                ]
                out.append(",".join("%d:%d" % kv for kv in items))
            else:
                out.append("BADCASE")
        except Exception as e:  # noqa
            out.append(_exc(e))
    return " ".join(out)


def _nets(s):
    import ipaddress
    from netconan.ip_anonymization import IpAnonymizer

    if s == "-":
        return []
    if s == "D":
        return None
    res = []
    for item in s.split(";"):
        if item == "P":
            res += list(IpAnonymizer.RFC_1918_NETWORKS)
        elif item == "D":
            res += list(IpAnonymizer.DEFAULT_PRESERVED_PREFIXES)
        else:
            a, l = item.split("/")
            res.append("%s/%s" % (ipaddress.IPv4Address(int(a)), l))
    return res


def run_ip(fields):
    from netconan import ip_anonymization as ipa

    cmd = fields[0]
    if cmd == "gbase":
        cmd = "base"
    if cmd == "gip4":
        cmd = "ip4"
    if cmd == "base":
        _, n, B, sal, ops = fields

        class W(ipa._BaseIpAnonymizer):
            @classmethod
            def get_addr_pattern(cls):
                return None

            @classmethod
            def make_addr(cls, s):
                return None

            @classmethod
            def make_addr_from_int(cls, i):
                return i

            def should_anonymize(self, i):
                return True

        salt, fn = _salter(sal)
        kw = {} if fn is None else {"salter": fn}
        a = W(salt, int(n), preserve_suffix=int(B), **kw)
        return _run_ops(a, ops, int(n))
    if cmd == "ip6":
        _, B, sal, ops = fields
        salt, fn = _salter(sal)
        kw = {} if fn is None else {"salter": fn}
        a = ipa.IpV6Anonymizer(salt, preserve_suffix=int(B), **kw)
        return _run_ops(a, ops, 128)
    if cmd == "ip4":
        _, B, sal, pfx, addrs, ops = fields
        salt, fn = _salter(sal)
        kw = {} if fn is None else {"salter": fn}
        try:
            a = ipa.IpAnonymizer(
                salt, _nets(pfx), _nets(addrs), preserve_suffix=int(B), **kw
            )
        except Exception as e:  # noqa
            return _exc(e)
        return _run_ops(a, ops, 32)
    return "BADCMD"


def run_jun(fields):
    from netconan.utils import juniper_secrets as js

    try:
        if fields[0] in ("gjenc", "gjdec"):
            fields = [fields[0][1:]] + fields[1:]
        if fields[0] == "jenc":
            return "OK:" + js.juniper_nonrandom_encrypt(fields[1], fields[2])
        return "OK:" + js.juniper_decrypt(fields[1])
    except Exception as e:  # noqa
        return type(e).__name__


class _Sink:
    def __init__(self):
        self.parts = []

    def write(self, s):
        self.parts.append(s)


def run_pipe(fields):
    from netconan.anonymize_files import FileAnonymizer

    _, flags, salt, words, asnums, reserved, pfx, nets, b4, b6, orc = fields[:11]
    lines = fields[11:]

    def optlist(s):
        return None if s.startswith("N") else s[1:].split("\x01")

    try:
        kw = dict(salt=salt, sensitive_words=optlist(words), undo_ip_anon="u" in flags, as_numbers=optlist(asnums), reserved_words=optlist(reserved),
                  preserve_prefixes=None if pfx == "-" else _nets(pfx), preserve_networks=None if nets == "-" else _nets(nets),
                  preserve_suffix_v4=int(b4), preserve_suffix_v6=int(b6))
        # an option that is not given is not passed at all (a library caller relying on the constructor's defaults), rather than passed as None
        kw = {k: v for k, v in kw.items() if v is not None}
        fa = FileAnonymizer("p" in flags, "a" in flags, **kw)
    except Exception as e:  # noqa
        return "RAISED:init:" + type(e).__name__
    sink = _Sink()
    records = []
    if "l" in flags:
        class H(logging.Handler):
            def emit(self, rec):
                records.append("%s:%s" % (rec.levelname, rec.getMessage()))
        logging.disable(logging.NOTSET)
        root = logging.getLogger()
        h = H(level=logging.INFO)
        root.addHandler(h)
        old = root.level
        root.setLevel(logging.INFO)
    try:
        if "2" in flags:
            # several anonymize_io calls on ONE FileAnonymizer: the texts are separated by a line "\x08"; outputs joined by \x07
            texts, cur = [], []
            for l in lines:
                if l == "\x08":
                    texts.append(cur)
                    cur = []
                else:
                    cur.append(l)
            texts.append(cur)
            outs = []
            for t in texts:
                sk = _Sink()
                fa.anonymize_io(io.StringIO("".join(t)), sk)
                outs.append("".join(sk.parts))
            return "\x07".join(outs)
        fa.anonymize_io(io.StringIO("".join(lines)), sink)
    except Exception as e:  # noqa
        return "RAISED:" + type(e).__name__
    finally:
        if "l" in flags:
            root.removeHandler(h)
            root.setLevel(old)
            logging.disable(logging.CRITICAL)
    out = "\x03".join(sink.parts)
    if "l" in flags:
        out += "\x05" + "\x06".join(records)
    if "d" in flags:
        d = _Sink()
        fa.anonymizer4.dump_to_file(d)
        fa.anonymizer6.dump_to_file(d)
        out += "\x04" + "".join(d.parts)
    return out


def run_asr(fields):
    """["asr"; h; asn]: _generate_as_number_replacement with the hash value forced to h"""
    from netconan import sensitive_item_removal as sir

    class FakeMd5:
        def __init__(self, data):
            pass

        def hexdigest(self):
            return "%x" % int(fields[1])

    real = sir.md5
    sir.md5 = FakeMd5
    try:
        a = sir.AsNumberAnonymizer.__new__(sir.AsNumberAnonymizer)
        a.salt = "s"
        r = a._generate_as_number_replacement(fields[2])
        return "None" if r is None else "OK:" + r
    except Exception as e:  # noqa
        return type(e).__name__
    finally:
        sir.md5 = real


def run_main(fields):
    """["main"; argv joined by U+0001; config file text or "-"]: runs the REAL netconan.netconan.main with anonymize_files replaced by a
    recorder; returns the recorded call with every argument resolved to its parameter name, or the exception / exit code"""
    import inspect
    import os
    import tempfile
    from netconan import netconan as nn
    from netconan import anonymize_files as af

    argv = [] if fields[1] == "" else fields[1].split("\x01")
    rec = []

    def recorder(*a, **k):
        b = inspect.signature(af.anonymize_files).bind(*a, **k)
        b.apply_defaults()
        rec.append(dict(b.arguments))

    real = nn.anonymize_files
    nn.anonymize_files = recorder
    tmp = None
    old_err = sys.stderr
    sys.stderr = io.StringIO()
    try:
        if fields[2] != "-":
            tmp = tempfile.NamedTemporaryFile("w", suffix=".cfg", delete=False)
            tmp.write(fields[2])
            tmp.close()
            argv = [x.replace("@CFG@", tmp.name) for x in argv]
        try:
            nn.main(argv)
        except SystemExit as e:
            return "EXIT:%s" % e.code
        except Exception as e:  # noqa
            return "RAISED:" + type(e).__name__
        if not rec:
            return "NOCALL"
        r = rec[0]

        def show(v):
            if isinstance(v, (list, tuple)):
                return "[" + ",".join(str(x) for x in v) + "]"
            return repr(v) if v is None or isinstance(v, bool) else str(v)
        return "CALL " + " ".join("%s=%s" % (k, show(r[k])) for k in sorted(r))
    finally:
        nn.anonymize_files = real
        sys.stderr = old_err
        if tmp:
            os.unlink(tmp.name)


def run_files(fields):
    """["files"; mode; options-json; tree-json]: materialises the tree in a temp dir and runs the real entry point.
    mode: "main" (argv built from options), "api" (anonymize_files), "file" (FileAnonymizer.anonymize_file per file), "io" (anonymize_io per file)
    tree: list of [relpath, content-as-latin1-escaped-bytes or None for a directory, {"out_is_dir": bool}]
    returns JSON: {"out": {relpath: text}, "inputs_unchanged": bool, "extra": [...], "errors": [...], "dump": text or None, "raised": ...}"""
    import base64
    import os
    import shutil
    import tempfile
    from netconan import anonymize_files as af
    from netconan import netconan as nn

    mode, opts, tree = fields[1], json.loads(fields[2]), json.loads(fields[3])
    root = tempfile.mkdtemp(prefix="nv_files_")
    try:
        ind, outd = os.path.join(root, "in"), os.path.join(root, opts.get("outname", "out"))
        os.makedirs(ind)
        if opts.get("precreate_out"):
            os.makedirs(outd)
        if opts.get("out_is_file"):
            with open(outd, "w") as f:
                f.write("KEEP ME\n")
        before = {}
        for rel, content, extra in tree:
            pth = os.path.join(ind, rel)
            if content is None:
                os.makedirs(pth, exist_ok=True)
                continue
            os.makedirs(os.path.dirname(pth), exist_ok=True)
            data = base64.b64decode(content)
            with open(pth, "wb") as f:
                f.write(data)
            before[rel] = data
            if extra.get("out_is_dir"):
                os.makedirs(os.path.join(outd, rel), exist_ok=True)
        errors = []

        class H(logging.Handler):
            def emit(self, rec):
                if rec.levelno >= logging.ERROR:
                    errors.append(rec.getMessage())
        logging.disable(logging.NOTSET)
        h = H()
        logging.getLogger().addHandler(h)
        raised = None
        dumpf = os.path.join(root, "dump.txt") if opts.get("dump") else None
        if dumpf and opts.get("dump_stale") is not None:      # the dump path already holds the map of an earlier run
            with open(dumpf, "w") as f:
                f.write(opts["dump_stale"])
        kw = dict(anon_pwd=opts.get("pwd", False), anon_ip=opts.get("ip", False), salt=opts.get("salt"), sensitive_words=opts.get("words"),
                  undo_ip_anon=opts.get("undo", False), as_numbers=opts.get("asnums"), reserved_words=opts.get("reserved"),
                  preserve_prefixes=opts.get("prefixes"), preserve_networks=opts.get("networks"),
                  preserve_suffix_v4=opts.get("b4"), preserve_suffix_v6=opts.get("b6"))
        single = opts.get("single")
        src = os.path.join(ind, single) if single else ind
        if opts.get("input_missing"):
            src = os.path.join(root, "no-such-input")
        dst = os.path.join(root, "single.out") if single else outd
        if single and opts.get("single_out_is_dir"):
            os.makedirs(dst)
        try:
            if mode == "main":
                argv = ["-i", src, "-o", dst]
                if kw["anon_pwd"]:
                    argv.append("-p")
                if kw["anon_ip"]:
                    argv.append("-a")
                if kw["undo_ip_anon"]:
                    argv.append("-u")
                if kw["salt"] is not None:
                    argv += ["-s", kw["salt"]]
                if kw["sensitive_words"] is not None:
                    argv += ["-w", ",".join(kw["sensitive_words"])]
                if kw["as_numbers"] is not None:
                    argv += ["-n", ",".join(kw["as_numbers"])]
                if kw["reserved_words"] is not None:
                    argv += ["-r", ",".join(kw["reserved_words"])]
                if kw["preserve_prefixes"] is not None:
                    argv += ["--preserve-prefixes", ",".join(kw["preserve_prefixes"])]
                if kw["preserve_networks"] is not None:
                    argv += ["--preserve-addresses", ",".join(kw["preserve_networks"])]
                if opts.get("private"):
                    argv.append("--preserve-private-addresses")
                if opts.get("hostbits") is not None:
                    argv += ["--preserve-host-bits", str(opts["hostbits"])]
                if dumpf:
                    argv += ["-d", dumpf]
                argv += opts.get("extra_argv", [])
                old_err = sys.stderr
                sys.stderr = io.StringIO()
                try:
                    nn.main(argv)
                except SystemExit as e:
                    raised = "EXIT:%s" % e.code
                finally:
                    sys.stderr = old_err
            elif mode == "api":
                af.anonymize_files(src, dst, dumpfile=dumpf, **kw)
            else:
                kw2 = dict(kw)
                fa = af.FileAnonymizer(**kw2)
                files = []
                if single:
                    files = [(src, dst)]
                else:
                    for r, dirs, fs in os.walk(ind):
                        dirs.sort()
                        for f in sorted(fs):
                            if not f.startswith("."):
                                rel = os.path.relpath(os.path.join(r, f), ind)
                                files.append((os.path.join(ind, rel), os.path.join(outd, rel)))
                for a, b in files:
                    os.makedirs(os.path.dirname(b), exist_ok=True)
                    try:
                        if mode == "file":
                            fa.anonymize_file(a, b)
                        else:
                            with open(a, "r") as fi:
                                text = fi.read()
                            so = io.StringIO()
                            fa.anonymize_io(io.StringIO(text), so)
                            with open(b, "w") as fo:
                                fo.write(so.getvalue())
                    except Exception as e:  # noqa
                        errors.append("Failed %s: %s" % (a, type(e).__name__))
        except Exception as e:  # noqa
            raised = "RAISED:" + type(e).__name__
        finally:
            logging.getLogger().removeHandler(h)
            logging.disable(logging.CRITICAL)
        out = {}
        base = dst
        if single:
            if os.path.isfile(dst):
                out[single] = open(dst, "rb").read().decode("utf-8", "replace")
        else:
            for r, dirs, fs in os.walk(outd):
                for f in fs:
                    rel = os.path.relpath(os.path.join(r, f), outd)
                    out[rel] = open(os.path.join(r, f), "rb").read().decode("utf-8", "replace")
        unchanged = all(open(os.path.join(ind, rel), "rb").read() == data for rel, data in before.items())
        listing = sorted(os.path.relpath(os.path.join(r, f), root) for r, d, fs in os.walk(root) for f in fs)
        if opts.get("out_is_file"):
            out = {"<the pre-existing output file>": open(outd).read() if os.path.isfile(outd) else "<gone>"}
        return json.dumps({"out": out, "inputs_unchanged": unchanged, "listing": listing, "errors": [e.replace(root, "<ROOT>") for e in errors],
                           "dump": open(dumpf).read() if dumpf and os.path.exists(dumpf) else None, "raised": raised})
    finally:
        shutil.rmtree(root, ignore_errors=True)


def run_gas(fields):
    """["gas"; salt; numeral]: the real _generate_as_number_replacement"""
    from netconan.sensitive_item_removal import AsNumberAnonymizer

    try:
        a = AsNumberAnonymizer([], fields[1])
        r = a._generate_as_number_replacement(fields[2])
        return "None" if r is None else r
    except ValueError:
        return "ValueError"
    except Exception as e:  # noqa
        return "ERR:" + type(e).__name__


def run_genc(fields):
    """["genc"; value]: the real _extract_enclosing_text"""
    from netconan import sensitive_item_removal as sir

    try:
        return "\x01".join(sir._extract_enclosing_text(fields[1]))
    except Exception as e:  # noqa
        return "ERR:" + type(e).__name__


def run_iphist(fields):
    """["iphist"; fam; B; salt; pfx; nets; step...]: ONE anonymizer object answers a sequence of text-level requests through
    anonymize_ip_addr; step = "a<line>" (anonymize) or "u<line>" (undo).  Output: the answers joined by \x03."""
    from netconan import ip_anonymization as ipa

    _, fam, B, salt, pfx, nets = fields[:6]
    a = ipa.IpV6Anonymizer(salt, preserve_suffix=int(B)) if fam == "6" else ipa.IpAnonymizer(salt, _nets(pfx), _nets(nets), preserve_suffix=int(B))
    out = []
    for st in fields[6:]:
        try:
            out.append(ipa.anonymize_ip_addr(a, st[1:], st[0] == "u"))
        except Exception as e:  # noqa
            out.append("RAISED:" + type(e).__name__)
    return "\x03".join(out)


def run_seq(fields):
    """["seq"; mode; json list of cases]: the cases are run one after the other IN THIS PROCESS; mode "drop" forces a garbage
    collection between them (objects of earlier runs are gone), "keep" keeps every object created alive. Output: results joined by \x07."""
    import gc

    mode, cases = fields[1], json.loads(fields[2])
    outs, keep = [], []
    for c in cases:
        if mode == "keep":
            import netconan.anonymize_files as af
            orig = af.FileAnonymizer

            class K(orig):
                def __init__(self, *a, **k):
                    super().__init__(*a, **k)
                    keep.append(self)
            af.FileAnonymizer = K
            try:
                outs.append(DISPATCH[c[0]](c))
            finally:
                af.FileAnonymizer = orig
        else:
            outs.append(DISPATCH[c[0]](c))
            gc.collect()
    return "\x07".join(outs)


DISPATCH = {"genc": run_genc, "gas": run_gas, "iphist": run_iphist, "seq": run_seq, "gjenc": run_jun, "gjdec": run_jun, "gbase": run_ip, "gip4": run_ip, "main": run_main, "files": run_files, "asr": run_asr, "pipe": run_pipe, "base": run_ip, "ip4": run_ip, "ip6": run_ip, "jenc": run_jun, "jdec": run_jun}


def _start_coverage():
    """NETCONAN_VERIF_COV=<file>: record which lines of netconan/*.py this process executes (appended as JSON lines); off by default"""
    path = os.environ.get("NETCONAN_VERIF_COV")
    if not path:
        return None
    root = os.path.join(os.environ.get("NETCONAN_REPO", "/repo"), "netconan")
    seen = set()

    def tracer(frame, event, arg):
        fn = frame.f_code.co_filename
        if not fn.startswith(root):
            return None

        def local(frame, event, arg):
            if event == "line":
                seen.add((fn[len(root) + 1:], frame.f_lineno))
            return local
        seen.add((fn[len(root) + 1:], frame.f_lineno))
        return local
    sys.settrace(tracer)
    import threading
    threading.settrace(tracer)

    def finish():
        sys.settrace(None)
        with open(path, "a") as f:
            f.write(json.dumps(sorted(seen)) + "\n")
    return finish


def main():
    _fin = _start_coverage()
    try:
        _main()
    finally:
        if _fin:
            _fin()


def _main():
    cases = json.load(sys.stdin)
    out = []
    for fields in cases:
        fn = DISPATCH.get(fields[0])
        try:
            out.append(fn(fields) if fn else "BADCMD")
        except Exception as e:  # noqa
            out.append("HARNESS-EXC:%s:%s" % (type(e).__name__, e))
    json.dump(out, sys.stdout)


if __name__ == "__main__":
    main()
