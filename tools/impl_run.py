#!/venv/bin/python
"""Implementation side of the correspondence check.

Reads a JSON list of cases on stdin (each case = list of string fields, the same fields the Coq model's
`run_case` receives), runs the REAL netconan from /repo on each, and prints a JSON list of result strings
in the model's output format.  Always run in a child interpreter with PYTHONPATH=/repo.
"""
import io
import json
import logging
import sys

sys.path.insert(0, "/repo")
logging.disable(logging.CRITICAL)


def _exc(e):
    return "ERR"


# ---------------------------------------------------------------- IP integer level
def _salter(spec):
    from netconan.ip_anonymization import _generate_bit_from_hash

    if spec.startswith("md5:"):
        return spec[4:], None
    assert spec.startswith("tab:")
    ones = set("" if p == "e" else p for p in spec[4:].split("|"))
    return "s", (lambda salt, s, ones=ones: 1 if s in ones else 0)


def _run_ops(a, ops, width):
    out = []
    for op in ops.split(" "):
        try:
            if op[0] == "a":
                x = int(op[1:])
                out.append("ERR" if x >= 2**width else str(a.anonymize(x)))
            elif op[0] == "d":
                x = int(op[1:])
                out.append("ERR" if x >= 2**width else str(a.deanonymize(x)))
            elif op[0] == "s":
                out.append("T" if a.should_anonymize(int(op[1:])) else "F")
            elif op[0] == "m":
                out.append("T" if a._is_mask(int(op[1:])) else "F")
            elif op == "D":
                items = [
                    (int(k, 2), int(v, 2))
                    for k, v in a.cache.items()
                    if len(k) == a.length
                ]
                out.append(",".join("%d:%d" % kv for kv in items))
            else:
                out.append("BADCASE")
        except Exception as e:  # noqa
            out.append(_exc(e))
    return " ".join(out)


def _nets(s):
    import ipaddress
    from netconan.ip_anonymization import IpAnonymizer

    if s == "-":
        return []
    if s == "D":
        return None
    res = []
    for item in s.split(";"):
        if item == "P":
            res += list(IpAnonymizer.RFC_1918_NETWORKS)
        elif item == "D":
            res += list(IpAnonymizer.DEFAULT_PRESERVED_PREFIXES)
        else:
            a, l = item.split("/")
            res.append("%s/%s" % (ipaddress.IPv4Address(int(a)), l))
    return res


def run_ip(fields):
    from netconan import ip_anonymization as ipa

    cmd = fields[0]
    if cmd == "base":
        _, n, B, sal, ops = fields

        class W(ipa._BaseIpAnonymizer):
            @classmethod
            def get_addr_pattern(cls):
                return None

            @classmethod
            def make_addr(cls, s):
                return None

            @classmethod
            def make_addr_from_int(cls, i):
                return i

            def should_anonymize(self, i):
                return True

        salt, fn = _salter(sal)
        kw = {} if fn is None else {"salter": fn}
        a = W(salt, int(n), preserve_suffix=int(B), **kw)
        return _run_ops(a, ops, int(n))
    if cmd == "ip6":
        _, B, sal, ops = fields
        salt, fn = _salter(sal)
        kw = {} if fn is None else {"salter": fn}
        a = ipa.IpV6Anonymizer(salt, preserve_suffix=int(B), **kw)
        return _run_ops(a, ops, 128)
    if cmd == "ip4":
        _, B, sal, pfx, addrs, ops = fields
        salt, fn = _salter(sal)
        kw = {} if fn is None else {"salter": fn}
        try:
            a = ipa.IpAnonymizer(
                salt, _nets(pfx), _nets(addrs), preserve_suffix=int(B), **kw
            )
        except Exception as e:  # noqa
            return _exc(e)
        return _run_ops(a, ops, 32)
    return "BADCMD"


def run_jun(fields):
    from netconan.utils import juniper_secrets as js

    try:
        if fields[0] == "jenc":
            return "OK:" + js.juniper_nonrandom_encrypt(fields[1], fields[2])
        return "OK:" + js.juniper_decrypt(fields[1])
    except Exception as e:  # noqa
        return type(e).__name__


DISPATCH = {"base": run_ip, "ip4": run_ip, "ip6": run_ip, "jenc": run_jun, "jdec": run_jun}


def main():
    cases = json.load(sys.stdin)
    out = []
    for fields in cases:
        fn = DISPATCH.get(fields[0])
        try:
            out.append(fn(fields) if fn else "BADCMD")
        except Exception as e:  # noqa
            out.append("HARNESS-EXC:%s:%s" % (type(e).__name__, e))
    json.dump(out, sys.stdout)


if __name__ == "__main__":
    main()
