#!/usr/bin/env python3
"""mutants_own_batch.py <name> [...]   (for `vp run --with-repo`): apply each seeded change to the repo copy, run the quick check of the
property it targets from this /verif snapshot, print verdict and first violation, revert."""
import json
import os
import subprocess
import sys

here = os.path.dirname(os.path.dirname(os.path.abspath(__file__)))
repo = os.environ.get("VP_RUN_REPO") or os.environ["NETCONAN_REPO"]
env = dict(os.environ, NETCONAN_REPO=repo)
subprocess.run(["/venv/bin/python", os.path.join(here, "tools", "setup.py")], env=env, cwd=here, capture_output=True)
for name in sys.argv[1:]:
    d = os.path.join(here, "seeded", name)
    prop = json.load(open(os.path.join(d, "meta.json"))).get("property") or name[:3]
    r = subprocess.run(["git", "-C", repo, "apply", os.path.join(d, "patch.diff")], capture_output=True, text=True)
    if r.returncode != 0:
        print(name, "PATCH-FAILED", r.stderr[:200], flush=True)
        continue
    try:
        r = subprocess.run(["/venv/bin/python", os.path.join(here, "tools", "check.py"), prop], capture_output=True, text=True, cwd=here, env=env)
        lines = [l for l in r.stdout.split("\n") if l.startswith(("VIOLATION", "OK "))]
        what = ""
        if r.returncode == 1 and lines:
            try:
                v = json.load(open(lines[-1].split("replay=")[1].split()[0]))["violations"][0]
                what = "%s | %s | %s" % (v.get("kind"), str(v.get("what"))[:160], str(v.get("error"))[:100])
            except Exception as e:
                what = "replay unreadable %s" % e
        print(name, prop, r.returncode, (lines[-1] if lines else (r.stdout + r.stderr)[-200:])[:120], "||", what, flush=True)
    finally:
        subprocess.run(["git", "-C", repo, "checkout", "--", "."])
