#!/bin/bash
# for `vp run --with-repo`: build everything in this snapshot, compile every props file (binding and G), then coqchk over all of them
cd "$(dirname "$0")/.."
[ -n "$VP_RUN_REPO" ] && export NETCONAN_REPO="$VP_RUN_REPO"
/venv/bin/python tools/setup.py >/dev/null 2>&1
cd coq
for f in props/C*.v; do coqc -R . NV -w -notation-overridden $f >/dev/null 2>&1 || echo "FAILED to compile $f"; done
cd ..
bash tools/coqchk_all.sh
cat coqchk/REPORT.txt | tail -30
