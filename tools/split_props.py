"""one-off: move the theorems about GENERATED function-level code (coq/refine/*) out of props/Cnn.v into props/CnnG.v"""
import re, sys, os
P = "/verif/coq/props"
REFMODS = {"RefIpCommon", "RefAnon", "RefDeanon", "RefInit", "RefHash", "RefEndToEnd", "RefMask", "RefShould", "RefAs", "RefEncl", "RefCli", "RefJunEnc", "RefJunDec", "DriverFn"}
KEEP_IN_BINDING = {"C18": {"C18_generated_per_character_functions_agree_with_the_model_sweep"}}

def split(pid, names):
    src = open(os.path.join(P, pid + ".v")).read()
    lines = src.split("\n")
    n = len(lines)
    take = [False] * n
    # theorem blocks
    for i, l in enumerate(lines):
        m = re.match(r"^(?:Theorem|Corollary)\s+(\w+)", l)
        if m and m.group(1) in names:
            j = i
            while not re.search(r"\bQed\.\s*$", lines[j]):
                j += 1
            k = i
            # preceding comment block (contiguous, ending with *) on the previous line)
            if k > 0 and lines[k - 1].rstrip().endswith("*)"):
                k -= 1
                while not lines[k].lstrip().startswith("(*"):
                    k -= 1
            for t in range(k, j + 1):
                take[t] = True
        m = re.match(r"^Print Assumptions (\w+)\.", l)
        if m and m.group(1) in names:
            take[i] = True
    first_thm = min(i for i, l in enumerate(lines) if re.match(r"^(Theorem|Section)", l))
    mid_req = [i for i, l in enumerate(lines) if l.startswith("Require Import") and i > first_thm]
    hdr = [l for i, l in enumerate(lines) if i < first_thm and (l.startswith("From Coq") or l.startswith("Import ") or l.startswith("Require Import") or l.startswith("Local Open") or l.startswith("Open Scope"))]
    g = ["(* %sG -- the theorems of %s about the function-level code GENERATED on this run from /repo's source (coq/gen/G_fn_*.v) and refined to the" % (pid, pid),
         "   model in coq/refine/*.v.  Kept apart from props/%s.v: when a behaviour-preserving rewrite of the source makes one of these scripts fail," % pid,
         "   the property is still decided by the model theorems of props/%s.v and the correspondence run, and the check reports the function-level" % pid,
         "   tie as not re-established (TIE-DEGRADED) instead of raising an alarm; see DESIGN.md section 4. *)"] + hdr + [lines[i] for i in mid_req] + [""]
    body = [lines[i] for i in range(n) if take[i] and not lines[i].startswith("Print Assumptions")]
    pa = [lines[i] for i in range(n) if take[i] and lines[i].startswith("Print Assumptions")]
    g += body + [""] + pa + [""]
    keep = []
    for i, l in enumerate(lines):
        if take[i] or i in mid_req:
            continue
        if l.startswith("Require Import") and i < first_thm:
            mods = l[len("Require Import"):].strip().rstrip(".").split()
            mods = [m for m in mods if m not in REFMODS]
            l = "Require Import " + " ".join(mods) + "."
        keep.append(l)
    open(os.path.join(P, pid + ".v"), "w").write(re.sub(r"\n{3,}", "\n\n", "\n".join(keep)))
    open(os.path.join(P, pid + "G.v"), "w").write(re.sub(r"\n{3,}", "\n\n", "\n".join(g)))

for pid in sys.argv[1:]:
    src = open(os.path.join(P, pid + ".v")).read()
    names = set(re.findall(r"^(?:Theorem|Corollary)\s+(\w*_generated_\w+)", src, re.M)) - KEEP_IN_BINDING.get(pid, set())
    print(pid, sorted(names))
    split(pid, names)
