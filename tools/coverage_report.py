#!/usr/bin/env python3
"""coverage_report.py [Cnn ...]: run the quick checks with NETCONAN_VERIF_COV set and report which executable lines of netconan/*.py the
implementation side of the checks (correspondence + search) executes.  Writes coverage/REPORT.md and coverage/lines.json."""
import ast
import json
import os
import subprocess
import sys

VERIF = os.path.dirname(os.path.dirname(os.path.abspath(__file__)))
REPO = os.environ.get("NETCONAN_REPO", "/repo")
props = sys.argv[1:] or ["C%02d" % i for i in range(1, 20)]
os.makedirs(os.path.join(VERIF, "coverage"), exist_ok=True)
per = {}
for p in props:
    cov = os.path.join(VERIF, "out", "cov_%s.jsonl" % p)
    if os.path.exists(cov):
        os.remove(cov)
    subprocess.run(["/venv/bin/python", os.path.join(VERIF, "tools", "check.py"), p], env=dict(os.environ, NETCONAN_VERIF_COV=cov), capture_output=True, text=True, cwd=VERIF)
    seen = set()
    if os.path.exists(cov):
        for l in open(cov):
            seen |= {tuple(x) for x in json.loads(l)}
    per[p] = seen


def executable_lines(path):
    """line numbers that carry a statement (docstrings excluded)"""
    tree = ast.parse(open(path).read())
    lines = set()
    for node in ast.walk(tree):
        if isinstance(node, ast.stmt):
            if isinstance(node, ast.Expr) and isinstance(node.value, ast.Constant) and isinstance(node.value.value, str):
                continue
            lines.add(node.lineno)
    return lines


files = ["ip_anonymization.py", "sensitive_item_removal.py", "anonymize_files.py", "netconan.py", "utils/juniper_secrets.py", "default_pwd_regexes.py"]
allseen = set().union(*per.values())
out = ["# Which lines of netconan the checks execute (implementation side of correspondence + search, quick tier)\n",
       "| file | executable statements | executed by some check | never executed (line numbers) |", "|---|---|---|---|"]
detail = {}
for f in files:
    ex = executable_lines(os.path.join(REPO, "netconan", f))
    hit = {ln for (fn, ln) in allseen if fn == f} & ex
    miss = sorted(ex - hit)
    detail[f] = {"executable": len(ex), "executed": len(hit), "missed": miss}
    out.append("| %s | %d | %d | %s |" % (f, len(ex), len(hit), ", ".join(map(str, miss)) or "–"))
out.append("\n## Per property: executed statements per file\n")
out.append("| property | " + " | ".join(files) + " |")
out.append("|---|" + "---|" * len(files))
for p in props:
    row = []
    for f in files:
        ex = executable_lines(os.path.join(REPO, "netconan", f))
        row.append(str(len({ln for (fn, ln) in per[p] if fn == f} & ex)))
    out.append("| %s | %s |" % (p, " | ".join(row)))
open(os.path.join(VERIF, "coverage", "REPORT.md"), "w").write("\n".join(out) + "\n")
json.dump(detail, open(os.path.join(VERIF, "coverage", "lines.json"), "w"), indent=1)
print("\n".join(out[:12]))
