#!/venv/bin/python
"""check.py <Cnn> [--tier quick|thorough] [--replay FILE]

One run = (1) regenerate coq/gen from /repo and rebuild the model, (2) compile coq/props/<Cnn>.v and read
Print Assumptions, (3) correspondence: extracted model vs the real netconan on generated cases,
(4) search for a concrete failing input with an oracle written from the property text, (5) verdict + evidence.
"""
import argparse
import importlib
import json
import os
import sys
import time

sys.path.insert(0, os.path.dirname(os.path.abspath(__file__)))
import vlib  # noqa


def main():
    ap = argparse.ArgumentParser()
    ap.add_argument("prop")
    ap.add_argument("--tier", default=os.environ.get("VERIF_TIER", "quick"))
    ap.add_argument("--replay")
    args = ap.parse_args()
    pid = args.prop
    tier = args.tier if args.tier in ("quick", "thorough") else "quick"
    seed = int(os.environ.get("VERIF_SEED", "0") or 0)
    t0 = time.time()
    mod = importlib.import_module("props." + pid.lower())
    rng = vlib.rng_for(pid, seed)
    os.makedirs(vlib.OUT, exist_ok=True)

    if args.replay:
        rep = json.load(open(args.replay))
        res = mod.replay(rep) if hasattr(mod, "replay") else vlib_replay(mod, rep)
        print(json.dumps(res, indent=1))
        return 0

    # 1. build
    b = vlib.build(log=os.path.join(vlib.OUT, pid + ".build.log"), prop_id=pid)
    needed = set(mod.COQ_DEPS)            # (kept for the record; what counts is computed from the dependency graph)
    broken_units = list(b["failed_props"])
    gen_failed = {k: v for k, v in b["gen"].items() if isinstance(v, str) and v.startswith("FAILED") and ("gen/" + k) in " ".join(needed) or k == "_extract" or k == "error"}
    # 2. proofs
    pr = vlib.compile_props(pid) if not broken_units else {"ok": False, "theorems": [], "error": "dependencies failed to build: %s" % broken_units, "stated": []}
    dirty = vlib.hygiene()
    if dirty:
        pr = dict(pr, ok=False, error="development is not clean (admitted proof / declared axiom / disabled check): %s" % dirty[:10])
    bad_axioms = [t for t in pr["theorems"] if not vlib.axioms_ok(t)]
    proofs_ok = pr["ok"] and not bad_axioms and len(pr["theorems"]) == len(pr.get("stated", [])) and len(pr["theorems"]) > 0
    # 2b. the function-level tie: theorems about the code GENERATED from the source on this run (props/<id>G.v over coq/refine/*)
    adv = None
    if os.path.exists(os.path.join(vlib.COQ, "props", pid + "G.v")):
        if b.get("failed_advisory"):
            adv = {"ok": False, "theorems": [], "stated": [], "error": "files of the function-level tie failed to build: %s" % b["failed_advisory"]}
        elif broken_units:
            adv = {"ok": False, "theorems": [], "stated": [], "error": "not attempted: the property's own theorems did not build"}
        else:
            adv = vlib.compile_props(pid + "G")
        adv["bad_axioms"] = [t for t in adv["theorems"] if not vlib.axioms_ok(t)]
        adv["re_established"] = bool(adv["ok"] and not adv["bad_axioms"] and len(adv["theorems"]) == len(adv.get("stated", [])) and adv["theorems"] and not dirty)
    model_ok = b["driver_ok"] and not b["failed_model"]

    known = [k for k in vlib.load_known() if k["property"] == pid and k.get("status") == "known"]
    ctx = vlib_ctx = Ctx(pid, tier, seed, rng, known, model_ok)
    # 3+4. correspondence and search (property specific)
    t1 = time.time()
    harness_exc = None
    # the thorough tier repeats correspondence + search under several seeds derived from VERIF_SEED (VERIF_THOROUGH_SEEDS, default 3)
    rounds = 1 if tier == "quick" else max(1, int(os.environ.get("VERIF_THOROUGH_SEEDS", "3") or 3))
    totals = {"evaluations": 0, "distinct_nontrivial": 0, "corr_cases": 0, "corr_disagreements": 0, "raw_output_drift": 0, "seeds": []}
    for rd in range(rounds):
        if rd:
            ctx.rng = vlib.rng_for(pid, "%d+%d" % (seed, rd))
            ctx.evaluations = ctx.distinct_nontrivial = 0
            ctx.corr_stats = {"cases": 0, "disagreements": 0}
        try:
            mod.run(ctx)
        except Exception:          # the implementation's output could not even be interpreted (never happens on the unchanged tree)
            import traceback
            harness_exc = traceback.format_exc()[-3000:]
        totals["seeds"].append(seed if not rd else "%d+%d" % (seed, rd))
        totals["evaluations"] += ctx.evaluations or 0
        totals["distinct_nontrivial"] += ctx.distinct_nontrivial or 0
        totals["corr_cases"] += ctx.corr_stats.get("cases", 0) or 0
        totals["corr_disagreements"] += ctx.corr_stats.get("disagreements", 0) or 0
        totals["raw_output_drift"] += ctx.corr_stats.get("raw_output_drift", 0) or 0
        if harness_exc or ctx.failures or ctx.disagreements:
            break
    if rounds > 1:
        ctx.evaluations, ctx.distinct_nontrivial = totals["evaluations"], totals["distinct_nontrivial"]
        ctx.corr_stats = dict(ctx.corr_stats, cases=totals["corr_cases"], disagreements=totals["corr_disagreements"], raw_output_drift=totals["raw_output_drift"], rounds=totals["seeds"],
                              note="per-label statistics are those of the last round; totals are over all rounds")
    t2 = time.time()

    # 5. verdict
    violations = []
    for f in ctx.failures:       # concrete failing inputs on the implementation
        violations.append({"kind": "failing-input", **f})
    new_disagreements = ctx.disagreements
    if not violations and harness_exc:
        violations.append({"kind": "uninterpretable-output", "no_failing_input_found": True,
                           "what": "the check could not interpret what the implementation returned (it raised or returned malformed output); traceback attached", "traceback": harness_exc,
                           "disagreements": new_disagreements[:3]})
    if not violations:
        if not proofs_ok:
            violations.append({"kind": "proof-broken", "no_failing_input_found": True,
                               "what": "coq/props/%s.v (or a file it depends on) no longer checks" % pid,
                               "error": pr["error"], "bad_axioms": bad_axioms, "broken_units": broken_units, "gen": b["gen"]})
        elif not model_ok:
            violations.append({"kind": "model-build-broken", "no_failing_input_found": True,
                               "what": "the executable model no longer builds from /repo's current tree", "failed": b["failed"], "gen": b["gen"], "log_tail": b["log"][-3000:]})
        elif new_disagreements:
            violations.append({"kind": "correspondence-broken", "no_failing_input_found": True,
                               "what": "model and implementation disagree on %d case(s); first (shrunk) cases attached" % len(new_disagreements),
                               "cases": new_disagreements[:5]})
    # the function-level tie (translated code refined to the model; translated code run against the implementation) is the stronger of two
    # ties.  When it is not re-established on this tree while the model theorems, the executable model and the correspondence all hold, the
    # property is still decided by the other tie (hand-written model + correspondence), but no longer for the code as written: reported as a violation
    # without a failing input (the brief's reading).  VERIF_STRICT_TIE=0 prints TIE-DEGRADED and exits 0 instead.
    degraded = None
    tie_broken = (adv is not None and not adv["re_established"]) or bool(ctx.advisory_disagreements)
    if tie_broken and not violations:
        degraded = {"property": pid, "what": "the function-level tie (code translated from /repo's source on this run, refined to the model / run against the implementation) "
                                             "is not re-established on this tree; the property is decided by the model theorems and the correspondence run, which hold",
                    "theorem_file": "coq/props/%sG.v" % pid if adv is not None else None,
                    "error": (adv or {}).get("error", ""), "bad_axioms": (adv or {}).get("bad_axioms", []), "failed_files": b.get("failed_advisory", []),
                    "generated_code_disagreements": ctx.advisory_disagreements[:5]}
        # the function-level tie is binding in both tiers (measured on six waves of seeded changes: the search alone misses about half of the
        # fresh rare-input changes at first sight, and nearly all of those sit in a refined function); VERIF_STRICT_TIE=0 reports TIE-DEGRADED instead
        strict = os.environ.get("VERIF_STRICT_TIE", "") != "0"
        if strict:
            violations.append(dict(degraded, kind="function-level-tie-broken", no_failing_input_found=True))
            degraded = None
    for k in ctx.known_hits:
        print("KNOWN-FINDING: property=%s %s" % (pid, k))

    cov = {
        "obligations": len(pr.get("stated", [])) or 1,
        "discharged": len([t for t in pr["theorems"] if vlib.axioms_ok(t)]) if pr["ok"] else 0,
        "checker_cmd": "coq_makefile/make over coq/_CoqProject (full .vo) + coqc -R coq NV coq/props/%s.v; Print Assumptions parsed" % pid,
        "trusted_base": mod.TRUSTED_BASE,
        "theorems": pr["theorems"],
        "generated_units": b["gen"],
        "function_level_tie": None if adv is None and not ctx.advisory_cases else {
            "theorem_file": "coq/props/%sG.v" % pid if adv is not None else None,
            "stated": len((adv or {}).get("stated", [])), "checked": len((adv or {}).get("theorems", [])) if (adv or {}).get("re_established") else 0,
            "theorems": (adv or {}).get("theorems", []), "re_established": bool(adv is None or adv["re_established"]) and not ctx.advisory_disagreements,
            "generated_code_cases": ctx.advisory_cases, "generated_code_disagreements": len(ctx.advisory_disagreements),
            "policy": "binding: a failure is reported as VIOLATION ... no-failing-input-found (VERIF_STRICT_TIE=0: TIE-DEGRADED line, exit 0); see DESIGN.md section 4"},
        "correspondence": ctx.corr_stats,
        "search": ctx.search_stats,
        "evaluations": ctx.evaluations,
        "distinct_nontrivial": ctx.distinct_nontrivial,
        "rule": getattr(mod, "RULE", ""),
        "samples": ctx.samples[:6],
        "hygiene": {"scan": "no Admitted/admit/Axiom/Parameter/Conjecture, no disabled kernel check, no Variable/Hypothesis outside a section in any .v of the development",
                    "offences": dirty},
        "phases_wall_s": {"build": b["wall_s"], "corr_search": round(t2 - t1, 1)},
    }
    ev = {
        "property_id": pid, "tier": tier, "seed": seed, "level": "proof", "coverage": cov,
        "assumptions": mod.ASSUMPTIONS, "wall_s": round(time.time() - t0, 2), "violations": len(violations),
        "known_findings_seen": ctx.known_hits,
    }
    vlib.write_json(os.path.join(vlib.EVID, pid + ".json"), ev)
    if violations:
        rp = os.path.join(vlib.OUT, "replay_%s_%d.json" % (pid, seed))
        vlib.write_json(rp, {"property": pid, "tier": tier, "seed": seed, "violations": violations})
        tail = " no-failing-input-found" if all(v.get("no_failing_input_found") for v in violations) else ""
        print("VIOLATION property=%s replay=%s%s" % (pid, rp, tail))
        return 1
    dg = os.path.join(vlib.OUT, "degraded_%s_%d.json" % (pid, seed))
    if degraded:
        vlib.write_json(dg, degraded)
        print("TIE-DEGRADED property=%s detail=%s (function-level refinement not re-established on this tree; model theorems and correspondence hold)" % (pid, dg))
    elif os.path.exists(dg):
        os.remove(dg)
    stale = os.path.join(vlib.OUT, "replay_%s_%d.json" % (pid, seed))
    if os.path.exists(stale):
        os.remove(stale)
    print("OK property=%s tier=%s theorems=%d%s corr_cases=%s search_evals=%s wall=%.0fs" % (
        pid, tier, len(pr["theorems"]), ("+%d" % len(adv["theorems"]) if adv and adv["re_established"] else ""), ctx.corr_stats.get("cases"), ctx.evaluations, time.time() - t0))
    return 0


class Ctx:
    """What a property module reports into."""

    def __init__(self, pid, tier, seed, rng, known, model_ok):
        self.pid, self.tier, self.seed, self.rng, self.known, self.model_ok = pid, tier, seed, rng, known, model_ok
        self.failures = []        # concrete failing inputs on the implementation (not known)
        self.disagreements = []   # model != implementation
        self.advisory_disagreements = []   # code generated from the source (function level) != implementation
        self.advisory_cases = 0
        self.known_hits = []
        self.corr_stats = {"cases": 0, "disagreements": 0}
        self.search_stats = {}
        self.evaluations = 0
        self.distinct_nontrivial = 0
        self.samples = []

    def quick(self):
        return self.tier == "quick"

    def correspond(self, cases, project=None, label="", shrink=None, impl_kw=None):
        """Run model and implementation on the same cases; record disagreements (after projection)."""
        if not self.model_ok:
            self.corr_stats.setdefault("skipped", []).append(label + ": model did not build")
            impl = vlib.run_impl(cases, **(impl_kw or {}))
            return [None] * len(cases), impl
        m = vlib.run_model(cases)
        i = vlib.run_impl(cases, **(impl_kw or {}))
        nd = drift = 0
        generated = label.startswith("generated-code")     # the driver runs the function TRANSLATED from the source, not the model
        sink = self.advisory_disagreements if generated else self.disagreements
        if generated:
            self.advisory_cases += len(cases)
        for c, mo, io in zip(cases, m, i):
            a, b_ = (project(c, mo), project(c, io)) if project else (mo, io)
            if a != b_:
                nd += 1
                if len(sink) < 20:
                    sink.append({"case": c, "model": mo[:2000], "impl": io[:2000], "label": label,
                                               "projected_model": str(a)[:500], "projected_impl": str(b_)[:500]})
            elif mo != io:
                drift += 1      # raw outputs differ but not in what this property observes: reported, not a violation
        self.corr_stats["cases"] += len(cases)
        self.corr_stats["disagreements"] += 0 if generated else nd
        self.corr_stats["raw_output_drift"] = self.corr_stats.get("raw_output_drift", 0) + drift
        self.corr_stats.setdefault("by_label", {})[label] = {"cases": len(cases), "disagreements": nd, "raw_output_drift": drift,
                                                             "projection": (project.__doc__ or project.__name__) if project else "identity (full output)"}
        return m, i

    def fail(self, what, case, observed, expected=None, label=""):
        """A concrete failing input on the implementation; known findings are matched by their class predicate."""
        desc = {"what": what, "case": case, "observed": observed, "expected": expected, "label": label}
        for k in self.known:
            if vlib_match(k, desc):
                msg = "%s (%s)" % (k["id"], k["summary"])
                if msg not in self.known_hits:
                    self.known_hits.append(msg)
                return
        if len(self.failures) < 20:
            self.failures.append(desc)


def vlib_match(k, desc):
    cls = k.get("match", {})
    if "label" in cls and cls["label"] != desc.get("label"):
        return False
    if "case_regex" in cls:
        import re
        if not re.search(cls["case_regex"], json.dumps(desc["case"], ensure_ascii=False)):
            return False
    if "what_regex" in cls:
        import re
        if not re.search(cls["what_regex"], desc["what"]):
            return False
    return True


def vlib_replay(mod, rep):
    out = []
    for v in rep.get("violations", []):
        if "case" in v:
            out.append({"case": v["case"], "impl_now": vlib.run_impl([v["case"]])[0], "model_now": vlib.run_model([v["case"]])[0]})
    return out


if __name__ == "__main__":
    sys.exit(main())
