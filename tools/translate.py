"""Function-level part of the translator: a class-aware, FAIL-CLOSED Python-subset -> Gallina translator.

Every Python value becomes a dynamically typed `pyval` (coq/lib/PyLib.v), every primitive a total function into the control monad
(Normal / Ret / Exc / Brk / Cont); methods take `self` and return (result, self'); stores are lenses; a self-recursive function is a
Fixpoint on fuel.  A construct outside the supported subset makes THAT function untranslatable (Unsupported) -- it is then
absent from the generated file and everything that mentions it stops compiling."""
import ast, sys

class Unsupported(Exception): pass

def cq(s): return '"%s"' % s.replace('"','""')
def coq_val(v):
    if v is None: return "VNone"
    if isinstance(v,bool): return "(VBool %s)"%("true" if v else "false")
    if isinstance(v,int): return "(VInt (%d))"%v
    if isinstance(v,str): return "(VStr [" + ";".join(str(ord(c)) for c in v) + "])"
    if isinstance(v,(list,)): return "(VList [" + ";".join(coq_val(x) for x in v) + "])"
    if isinstance(v,tuple): return "(VTuple [" + ";".join(coq_val(x) for x in v) + "])"
    if isinstance(v,dict): return "(VDict [" + ";".join("(%s,%s)"%(coq_val(k),coq_val(x)) for k,x in v.items()) + "])"
    raise Unsupported("const %r"%(v,))

BIN={ast.Add:"py_add",ast.Sub:"py_sub",ast.Mult:"py_mul",ast.FloorDiv:"py_floordiv",ast.Mod:"py_mod",
     ast.BitXor:"py_xor",ast.BitAnd:"py_and",ast.RShift:"py_rshift"}
CMP={ast.Eq:"py_eq",ast.NotEq:"py_ne",ast.Lt:"py_lt",ast.LtE:"py_le",ast.Gt:"py_gt",ast.GtE:"py_ge"}

class Mod:
    def __init__(self, path, pymod):
        self.tree=ast.parse(open(path).read()); self.py=pymod
        self.funcs={}; self.classes={}
        self.globs={k:getattr(pymod,k) for k in dir(pymod) if k.strip("_").isupper() and not k.startswith("__") and isinstance(getattr(pymod,k),(str,int,list,tuple,dict))}
        self.used_globs=[]; self.rx_consts={}; self.thread_cache={}
        for n in self.tree.body:
            if isinstance(n,ast.FunctionDef): self.funcs[n.name]=n
            if isinstance(n,ast.ClassDef):
                bases=[b.id for b in n.bases if isinstance(b,ast.Name) and b.id!="object"]
                self.classes[n.name]={"bases":bases,"methods":{m.name:m for m in n.body if isinstance(m,ast.FunctionDef)}}
    def mro(self,c):
        out=[c]
        for b in self.classes[c]["bases"]:
            if b in self.classes: out+=self.mro(b)
        return out
    def find_method(self,c,m):
        for k in self.mro(c):
            if m in self.classes[k]["methods"]: return k
        return None
    def is_abstract(self,fn): return any(isinstance(d,ast.Name) and d.id=="abstractmethod" for d in fn.decorator_list)
    def is_classmethod(self,fn): return any(isinstance(d,ast.Name) and d.id=="classmethod" for d in fn.decorator_list)

def gname(cls,fn): return "gen_%s__%s"%(cls,fn) if cls else "gen_%s"%fn

class Fn:
    def __init__(self, mod, cls, fn):
        self.mod=mod; self.cls=cls; self.fn=fn; self.n=0; self.calls=set()
        a=fn.args
        self.params=[x.arg for x in a.args]
        if a.kwarg: self.params.append(a.kwarg.arg)
        self.kwarg=a.kwarg.arg if a.kwarg else None
        loc=[]
        for n in ast.walk(fn):
            if isinstance(n,ast.Name) and isinstance(n.ctx,ast.Store) and n.id not in loc and n.id not in self.params: loc.append(n.id)
            if isinstance(n,(ast.ListComp,ast.GeneratorExp,ast.SetComp,ast.DictComp)): pass
        if getattr(mod,"sub_callbacks",False):
            for n in ast.walk(fn):
                if (isinstance(n,ast.Call) and isinstance(n.func,ast.Attribute) and n.func.attr=="sub" and len(n.args)==2 and isinstance(n.args[0],ast.Lambda)
                        and len(n.args[0].args.args)==1
                        and any(isinstance(z,ast.Name) and z.id==n.args[0].args.args[0].arg for z in ast.walk(n.args[0].body))):
                    for nm in (n.args[0].args.args[0].arg,"reps_"):
                        if nm not in loc and nm not in self.params: loc.append(nm)
        if getattr(mod,"sub_callbacks",False):
            for n in ast.walk(fn):
                if (isinstance(n,ast.Call) and isinstance(n.func,ast.Attribute) and n.func.attr=="sub" and len(n.args)==2 and isinstance(n.args[0],ast.Attribute)
                        and isinstance(n.args[0].value,ast.Name) and n.args[0].value.id=="self"):
                    for nm in ("m_","reps_"):
                        if nm not in loc and nm not in self.params: loc.append(nm)
                if isinstance(n,ast.ListComp) and "acc_" not in loc: loc.append("acc_")
        for n in ast.walk(fn):
            if isinstance(n,ast.DictComp) and "acc_" not in loc: loc.append("acc_")
        self.vars=self.params+loc
        self.is_method = cls is not None and self.params and self.params[0] in ("self",)
        # a method that calls .write(...) on a parameter (a file-like object modelled as the list of strings written): that parameter is returned too
        self.thread2=None
        if getattr(mod,"io_lists",False) and cls is not None:
            for n in ast.walk(fn):
                if (isinstance(n,ast.Call) and isinstance(n.func,ast.Attribute) and n.func.attr=="write" and isinstance(n.func.value,ast.Name)
                        and n.func.value.id in self.params): self.thread2=n.func.value.id
        # a module-level function that writes into one of its parameters (lookup[k] = v): the parameter is threaded like self
        self.thread=None
        if cls is None:
            mut=[]
            for n in ast.walk(fn):
                if isinstance(n,ast.Assign):
                    for t in n.targets:
                        if isinstance(t,ast.Subscript) and isinstance(t.value,ast.Name) and t.value.id in self.params and t.value.id not in mut: mut.append(t.value.id)
            # ... or hands one of its parameters to a function that does
            for n in ast.walk(fn):
                if isinstance(n,ast.Call) and isinstance(n.func,ast.Name) and n.func.id in mod.funcs and n.func.id!=fn.name:
                    cal=mod.funcs[n.func.id]
                    th=mod.thread_cache[n.func.id] if n.func.id in mod.thread_cache else None
                    if n.func.id not in mod.thread_cache:
                        mod.thread_cache[n.func.id]=None
                        try: th=Fn(mod,None,cal).thread
                        except Unsupported: th=None
                        mod.thread_cache[n.func.id]=th
                    if th:
                        k=[x.arg for x in cal.args.args].index(th)
                        if k<len(n.args) and isinstance(n.args[k],ast.Name) and n.args[k].id in self.params and n.args[k].id not in mut: mut.append(n.args[k].id)
            for n in ast.walk(fn):
                if (isinstance(n,ast.Call) and isinstance(n.func,ast.Attribute) and n.func.attr in getattr(mod,"method_thread_oracles",()) and isinstance(n.func.value,ast.Name)
                        and n.func.value.id in self.params and n.func.value.id not in mut): mut.append(n.func.value.id)
            if len(mut)==1: self.thread=mut[0]
            elif len(mut)>1: raise Unsupported("two mutated parameters")
    def tmp(self): self.n+=1; return "t%d"%self.n
    def env(self): return "(" + ", ".join("v_"+v for v in self.vars) + ")" if len(self.vars)>1 else "v_"+self.vars[0]
    def pat(self): return "'"+self.env() if len(self.vars)>1 else self.env()
    def ety(self): return " * ".join("pyval" for _ in self.vars)
    # ---- calls -------------------------------------------------------------
    def resolve_args(self, callee, call, binds, skip_self):
        """positional/keyword/**kwargs -> full positional list per callee signature"""
        a=callee.args; names=[x.arg for x in a.args][(1 if skip_self else 0):]
        defaults=dict(zip([x.arg for x in a.args][len(a.args)-len(a.defaults):], a.defaults))
        given={}
        for i,e in enumerate(call.args):
            if i>=len(names): raise Unsupported("too many args")
            given[names[i]]=self.ex(e,binds)
        star=None; extra={}
        for k in call.keywords:
            if k.arg is None: star=self.ex(k.value,binds)
            elif k.arg in names: given[k.arg]=self.ex(k.value,binds)
            elif a.kwarg: extra[k.arg]=self.ex(k.value,binds)
            else: raise Unsupported("unknown keyword "+k.arg)
        out=[]
        for nme in names:
            if nme in given: out.append(given[nme]); continue
            if nme not in defaults: raise Unsupported("missing arg "+nme)
            d=self.const_default(defaults[nme])
            out.append("(kw_lookup %s %s %s)"%(star,cq(nme),d) if star else d)
        if a.kwarg:
            lit="(VDict [" + ";".join("(S_ %s, %s)"%(cq(k),v) for k,v in extra.items()) + "])"
            out.append(lit if not star else star)   # spike: forwarded **kwargs passed through unchanged
        return out
    def const_default(self,d):
        if isinstance(d,ast.Constant): return coq_val(d.value)
        if isinstance(d,ast.Name) and d.id in self.mod.funcs: return "(VFun %s)"%("(of_string %s)"%cq(d.id))
        raise Unsupported("default")
    def call_gen(self, gname_, args, binds, returns_self):
        t=self.tmp(); binds.append("%s <- %s py_call fuel %s ;; "%(t,gname_," ".join(args)))
        if returns_self:
            r=self.tmp(); binds.append("p_ <- unpack2 %s ;; let '(%s, v_self) := p_ in "%(t,r)); return r
        return t
    def ex(self, e, binds):
        if isinstance(e,ast.Constant): return coq_val(e.value)
        if isinstance(e,ast.Name):
            if e.id in self.vars: return "v_"+e.id
            if e.id in self.mod.funcs: return "(VFun (of_string %s))"%cq(e.id)
            if e.id in self.mod.globs:
                if e.id not in self.mod.used_globs: self.mod.used_globs.append(e.id)
                return "g_"+e.id
            if e.id in getattr(self.mod,"global_oracles",()):
                # a module-level variable that is not a constant (the shared reserved-word set): whatever the py_call parameter says it holds now
                t=self.tmp(); binds.append("%s <- py_call (VFun (of_string %s)) (VList []) ;; "%(t,cq(e.id))); return t
            raise Unsupported("name "+e.id)
        if isinstance(e,ast.Attribute) and isinstance(e.value,ast.Name) and e.value.id not in self.vars and e.value.id in getattr(self.mod,"xmods",{}):
            xm=self.mod.xmods[e.value.id][0]
            if e.attr in xm.globs: return coq_val(xm.globs[e.attr])
            raise Unsupported("attribute of module "+e.value.id)
        if isinstance(e,ast.Attribute) and isinstance(e.value,ast.Name) and e.value.id not in self.vars:
            import enum
            obj=getattr(self.mod.py,e.value.id,None)
            if isinstance(obj,type) and issubclass(obj,enum.Enum) and e.attr in obj.__members__ and isinstance(obj[e.attr].value,int):
                return "(VInt (%d))"%obj[e.attr].value
            import types
            if isinstance(obj,types.ModuleType) and e.attr.isupper() and isinstance(getattr(obj,e.attr,None),int) and not isinstance(getattr(obj,e.attr),bool):
                return "(VInt (%d))"%int(getattr(obj,e.attr))      # an integer constant of an imported module (re.IGNORECASE)
            # a constant attribute (tuple / list / str / int) of a class visible in the module, e.g. IpAnonymizer.RFC_1918_NETWORKS
            if isinstance(obj,type) and e.attr in obj.__dict__ and isinstance(obj.__dict__[e.attr],(tuple,list,str,int)) and not isinstance(obj.__dict__[e.attr],bool):
                return coq_val(obj.__dict__[e.attr])
        if isinstance(e,ast.Attribute):
            # class constant?
            if isinstance(e.value,ast.Name) and e.value.id in ("self","cls") and self.cls:
                for k in self.mod.mro(self.cls):
                    pc=getattr(self.mod.py,k)
                    if e.attr in pc.__dict__ and not callable(pc.__dict__[e.attr]) and not isinstance(pc.__dict__[e.attr],(classmethod,staticmethod)):
                        return coq_val(pc.__dict__[e.attr])
            o=self.ex(e.value,binds); t=self.tmp(); binds.append("%s <- py_getattr %s %s ;; "%(t,o,cq(e.attr))); return t
        if isinstance(e,ast.BinOp) and isinstance(e.op,ast.Mult) and isinstance(e.left,ast.Constant) and isinstance(e.left.value,str):
            self.mod.need_lib2=True
            a=self.ex(e.left,binds); b=self.ex(e.right,binds); t=self.tmp(); binds.append("%s <- py_str_repeat %s %s ;; "%(t,a,b)); return t
        if isinstance(e,ast.BinOp) and isinstance(e.op,ast.BitOr) and getattr(self.mod,"sets_as_lists",False):
            # a set is represented by a list of its elements (only membership may be asked of it): union is concatenation
            self.mod.need_lib2=True
            a=self.ex(e.left,binds); b=self.ex(e.right,binds); t=self.tmp(); binds.append("%s <- py_set_union %s %s ;; "%(t,a,b)); return t
        if isinstance(e,ast.BinOp) and type(e.op) in BIN:
            a=self.ex(e.left,binds); b=self.ex(e.right,binds); t=self.tmp(); binds.append("%s <- %s %s %s ;; "%(t,BIN[type(e.op)],a,b)); return t
        if isinstance(e,ast.Compare) and len(e.ops)==1:
            op=e.ops[0]; a=self.ex(e.left,binds)
            if isinstance(op,(ast.Is,ast.IsNot)) and isinstance(e.comparators[0],ast.Constant) and e.comparators[0].value is None:
                return ("(VBool (is_none %s))"%a) if isinstance(op,ast.Is) else ("(VBool (negb (is_none %s)))"%a)
            b=self.ex(e.comparators[0],binds); t=self.tmp()
            if type(op) in CMP: binds.append("%s <- %s %s %s ;; "%(t,CMP[type(op)],a,b)); return t
            if isinstance(op,ast.In) and getattr(self.mod,"sets_as_lists",False):
                self.mod.need_lib2=True
                binds.append("%s <- py_in2 %s %s ;; "%(t,a,b)); return t
            if isinstance(op,ast.In): binds.append("%s <- py_in %s %s ;; "%(t,a,b)); return t
            if isinstance(op,ast.NotIn):
                t0=self.tmp(); binds.append("%s <- py_in %s %s ;; "%(t0,a,b)); binds.append("%s <- py_not %s ;; "%(t,t0)); return t
            raise Unsupported("cmp")
        if isinstance(e,ast.UnaryOp) and isinstance(e.op,ast.Not):
            a=self.ex(e.operand,binds); t=self.tmp(); binds.append("%s <- py_not %s ;; "%(t,a)); return t
        if isinstance(e,ast.UnaryOp) and isinstance(e.op,ast.USub):
            a=self.ex(e.operand,binds); t=self.tmp(); binds.append("%s <- py_neg %s ;; "%(t,a)); return t
        if isinstance(e,ast.BoolOp) and len(e.values)>2:
            # a or b or c  ==  a or (b or c)   (same for and): fold to the binary form
            e=ast.BoolOp(op=e.op,values=[e.values[0],ast.BoolOp(op=e.op,values=e.values[1:])])
        if isinstance(e,ast.BoolOp) and len(e.values)==2:
            a=self.ex(e.values[0],binds); sub=[]; b=self.ex(e.values[1],sub); t=self.tmp()
            if any("v_self) := p_" in s for s in sub): raise Unsupported("effect in short-circuit")
            cond="truthy %s"%a if isinstance(e.op,ast.Or) else "negb (truthy %s)"%a
            binds.append("%s <- (if %s then Normal %s else (%sNormal %s)) ;; "%(t,cond,a,"".join(sub),b)); return t
        if isinstance(e,ast.Subscript):
            a=self.ex(e.value,binds)
            if isinstance(e.slice,ast.Slice):
                if e.slice.step is not None:
                    st=e.slice.step
                    if e.slice.lower is None and e.slice.upper is None and isinstance(st,ast.UnaryOp) and isinstance(st.op,ast.USub) and isinstance(st.operand,ast.Constant) and st.operand.value==1:
                        t=self.tmp(); binds.append("%s <- py_rev_same %s ;; "%(t,a)); return t
                    raise Unsupported("step")
                lo=self.ex(e.slice.lower,binds) if e.slice.lower else "VNone"; hi=self.ex(e.slice.upper,binds) if e.slice.upper else "VNone"
                t=self.tmp(); binds.append("%s <- py_slice %s %s %s ;; "%(t,a,lo,hi)); return t
            i=self.ex(e.slice,binds); t=self.tmp(); binds.append("%s <- py_getitem %s %s ;; "%(t,a,i)); return t
        if isinstance(e,ast.Tuple): return "(VTuple [" + ";".join(self.ex(x,binds) for x in e.elts) + "])"
        if isinstance(e,ast.List): return "(VList [" + ";".join(self.ex(x,binds) for x in e.elts) + "])"
        if isinstance(e,ast.Dict): return "(VDict [" + ";".join("(%s,%s)"%(self.ex(k,binds),self.ex(v,binds)) for k,v in zip(e.keys,e.values)) + "])"
        if isinstance(e,(ast.ListComp,ast.GeneratorExp)) and len(e.generators)==1 and not e.generators[0].ifs and isinstance(e.generators[0].target,ast.Name):
            g=e.generators[0]; it=self.ex(g.iter,binds); items=self.tmp(); binds.append("%s <- py_iter %s ;; "%(items,it))
            sub=[]; saved=self.vars; self.vars=self.vars+[g.target.id] if g.target.id not in self.vars else self.vars
            el=self.ex(e.elt,sub); self.vars=saved
            if any("v_self) := p_" in s for s in sub):
                # the element expression updates self: a loop over the whole state with an accumulator
                if not (isinstance(e,ast.ListComp) and "acc_" in self.vars and g.target.id in self.vars): raise Unsupported("effect in comprehension")
                binds.append("let v_acc_ := (VList []) in e_ <- py_for %s (fun x_ %s => let v_%s := x_ in %s"%(items,self.pat(),g.target.id,"".join(sub)))
                ta=self.tmp(); binds.append("%s <- py_list_append v_acc_ %s ;; let v_acc_ := %s in Normal %s) %s ;; let %s := e_ in "%(ta,el,ta,self.env(),self.env(),self.pat()))
                return "v_acc_"
            t=self.tmp(); binds.append("%s <- py_for %s (fun x_ acc_ => let v_%s := x_ in %sNormal (acc_ ++ [%s])%%list) (@nil pyval) ;; "%(t,items,g.target.id,"".join(sub),el))
            return "(VList %s)"%t
        if isinstance(e,ast.DictComp) and len(e.generators)==1 and not e.generators[0].ifs and isinstance(e.generators[0].target,ast.Name) and e.generators[0].target.id in self.vars and "acc_" in self.vars:
            # {K: V for x in ITER}: a loop over the whole state (K, V may update self) filling a dict in iteration order (a repeated key keeps its first position, last value)
            g=e.generators[0]; it=self.ex(g.iter,binds); items=self.tmp(); binds.append("%s <- py_iter %s ;; "%(items,it))
            sub=[]; k=self.ex(e.key,sub); v=self.ex(e.value,sub); ta=self.tmp()
            binds.append("let v_acc_ := (VDict []) in e_ <- py_for %s (fun x_ %s => let v_%s := x_ in %s%s <- py_setitem v_acc_ %s %s ;; let v_acc_ := %s in Normal %s) %s ;; let %s := e_ in "
                         %(items,self.pat(),g.target.id,"".join(sub),ta,k,v,ta,self.env(),self.env(),self.pat()))
            return "v_acc_"
        if (isinstance(e,(ast.SetComp,ast.ListComp)) and getattr(self.mod,"sets_as_lists",False) and len(e.generators)==1 and len(e.generators[0].ifs)<=1
                and isinstance(e.generators[0].target,ast.Name) and (isinstance(e,ast.SetComp) or e.generators[0].ifs)):
            # {ELT for x in ITER [if COND]} / [ELT for x in ITER if COND]: the list of the ELTs in iteration order; a set keeps the first of equal elements
            self.mod.need_lib2=True
            g=e.generators[0]; it=self.ex(g.iter,binds); items=self.tmp(); binds.append("%s <- py_iter %s ;; "%(items,it))
            saved=self.vars; self.vars=self.vars+[g.target.id] if g.target.id not in self.vars else self.vars
            sc=[]; c=self.ex(g.ifs[0],sc) if g.ifs else None; sub=[]; el=self.ex(e.elt,sub); self.vars=saved
            if any("v_self) := p_" in x for x in sc+sub): raise Unsupported("effect in comprehension")
            t=self.tmp()
            body=("%sif truthy %s then (%sNormal (acc_ ++ [%s])%%list) else Normal acc_"%("".join(sc),c,"".join(sub),el)) if g.ifs else ("%sNormal (acc_ ++ [%s])%%list"%("".join(sub),el))
            binds.append("%s <- py_for %s (fun x_ acc_ => let v_%s := x_ in %s) (@nil pyval) ;; "%(t,items,g.target.id,body))
            if isinstance(e,ast.SetComp):
                t2=self.tmp(); binds.append("%s <- py_dedup (VList %s) ;; "%(t2,t)); return t2
            return "(VList %s)"%t
        if isinstance(e,ast.JoinedStr):
            acc=None
            for p_ in e.values:
                if isinstance(p_,ast.Constant): a=coq_val(p_.value)
                elif isinstance(p_,ast.FormattedValue) and p_.conversion==-1 and p_.format_spec is None:
                    a0=self.ex(p_.value,binds); a=self.tmp(); binds.append("%s <- py_format_str %s ;; "%(a,a0))
                else: raise Unsupported("fstring")
                if acc is None: acc=a
                else:
                    t=self.tmp(); binds.append("%s <- py_add %s %s ;; "%(t,acc,a)); acc=t
            return acc if acc is not None else "(VStr [])"
        if (isinstance(e,(ast.ListComp,ast.GeneratorExp)) and len(e.generators)==1 and len(e.generators[0].ifs)==1 and isinstance(e.generators[0].target,ast.Tuple)
                and len(e.generators[0].target.elts)==2 and all(isinstance(x,ast.Name) for x in e.generators[0].target.elts)):
            # [ELT for a, b in ITER if COND]  (a generator expression is taken as the list it yields: ELT and COND are checked to be free of calls
            # other than len, so nothing can observe when they are evaluated)
            g=e.generators[0]
            for part in (e.elt,g.ifs[0]):
                for n in ast.walk(part):
                    if isinstance(n,ast.Call) and not (isinstance(n.func,ast.Name) and n.func.id=="len"): raise Unsupported("call in filtered comprehension")
            it=self.ex(g.iter,binds); items=self.tmp(); binds.append("%s <- py_iter %s ;; "%(items,it))
            n1,n2=g.target.elts[0].id,g.target.elts[1].id
            saved=self.vars; self.vars=self.vars+[x for x in (n1,n2) if x not in self.vars]
            sc=[]; c=self.ex(g.ifs[0],sc); sub=[]; el=self.ex(e.elt,sub); self.vars=saved
            t=self.tmp(); binds.append("%s <- py_for %s (fun x_ acc_ => p_ <- unpack2 x_ ;; let '(v_%s, v_%s) := p_ in %sif truthy %s then (%sNormal (acc_ ++ [%s])%%list) else Normal acc_) (@nil pyval) ;; "%(t,items,n1,n2,"".join(sc),c,"".join(sub),el))
            return "(VList %s)"%t
        if isinstance(e,(ast.ListComp,ast.GeneratorExp)) and len(e.generators)==1 and not e.generators[0].ifs and isinstance(e.generators[0].target,ast.Tuple) and len(e.generators[0].target.elts)==2:
            g=e.generators[0]; it=self.ex(g.iter,binds); items=self.tmp(); binds.append("%s <- py_iter %s ;; "%(items,it))
            n1,n2=g.target.elts[0].id,g.target.elts[1].id
            sub=[]; saved=self.vars; self.vars=self.vars+[x for x in (n1,n2) if x not in self.vars]
            el=self.ex(e.elt,sub); self.vars=saved
            t=self.tmp(); binds.append("%s <- py_for %s (fun x_ acc_ => p_ <- unpack2 x_ ;; let '(v_%s, v_%s) := p_ in %sNormal (acc_ ++ [%s])%%list) (@nil pyval) ;; "%(t,items,n1,n2,"".join(sub),el))
            return "(VList %s)"%t
        if isinstance(e,ast.IfExp):
            c=self.ex(e.test,binds); sa=[]; a=self.ex(e.body,sa); sb=[]; b=self.ex(e.orelse,sb); t=self.tmp()
            if any("v_self) := p_" in s for s in sa+sb):
                # a branch updates self: both branches answer (value, self)
                t=self.tmp(); r=self.tmp()
                binds.append("%s <- (if truthy %s then (%sNormal (VTuple [%s; v_self])) else (%sNormal (VTuple [%s; v_self]))) ;; p_ <- unpack2 %s ;; let '(%s, v_self) := p_ in "%(t,c,"".join(sa),a,"".join(sb),b,t,r))
                return r
            binds.append("%s <- (if truthy %s then (%sNormal %s) else (%sNormal %s)) ;; "%(t,c,"".join(sa),a,"".join(sb),b)); return t
        if isinstance(e,ast.Call): return self.call(e,binds)
        raise Unsupported("expr "+ast.dump(e)[:70])
    def call(self,e,binds):
        f=e.func
        if isinstance(f,ast.Name) and f.id in getattr(self.mod,"oracles",()):
            # a function left uninterpreted (another module's, or this module's argument parser): its behaviour is whatever the py_call parameter says
            pos="(VList [%s])"%";".join(self.ex(a,binds) for a in e.args)
            kw="(VDict [%s])"%";".join("(S_ %s, %s)"%(cq(k.arg),self.ex(k.value,binds)) for k in e.keywords)
            t=self.tmp(); binds.append("%s <- py_call (VFun (of_string %s)) (VTuple [%s; %s]) ;; "%(t,cq(f.id),pos,kw)); return t
        if isinstance(f,ast.Attribute) and isinstance(f.value,ast.Name) and f.value.id not in self.vars and (f.value.id+"."+f.attr) in getattr(self.mod,"oracles",()):
            pos="(VList [%s])"%";".join(self.ex(a,binds) for a in e.args)
            kw="(VDict [%s])"%";".join("(S_ %s, %s)"%(cq(k.arg),self.ex(k.value,binds)) for k in e.keywords)
            t=self.tmp(); binds.append("%s <- py_call (VFun (of_string %s)) (VTuple [%s; %s]) ;; "%(t,cq(f.value.id+"."+f.attr),pos,kw)); return t
        # super(X, self).__init__(...)
        if isinstance(f,ast.Attribute) and isinstance(f.value,ast.Call) and isinstance(f.value.func,ast.Name) and f.value.func.id=="super":
            X=f.value.args[0].id; base=None
            for b in self.mod.mro(X)[1:]:
                if f.attr in self.mod.classes[b]["methods"]: base=b; break
            if base is None: raise Unsupported("super target")
            callee=self.mod.classes[base]["methods"][f.attr]
            args=self.resolve_args(callee,e,binds,True); self.calls.add((base,f.attr))
            return self.call_gen(gname(base,f.attr),["v_self"]+args,binds,True)
        # self.method(...) / self.field(...)
        if isinstance(f,ast.Attribute) and isinstance(f.value,ast.Name) and f.value.id in ("self","cls") and self.cls:
            k=self.mod.find_method(self.cls,f.attr)
            if k is not None and not self.mod.is_abstract(self.mod.classes[k]["methods"][f.attr]):
                callee=self.mod.classes[k]["methods"][f.attr]
                if self.mod.is_classmethod(callee):
                    # a classmethod reads nothing but its class: called with the receiver as the class, it answers a plain value
                    args=self.resolve_args(callee,e,binds,True); self.calls.add((k,f.attr))
                    return self.call_gen(gname(k,f.attr),["v_"+f.value.id]+args,binds,False)
                if self.mod.is_classmethod(callee) or f.value.id=="cls": raise Unsupported("classmethod call")
                args=self.resolve_args(callee,e,binds,True); self.calls.add((k,f.attr))
                return self.call_gen(gname(k,f.attr),["v_self"]+args,binds,True)
            if k is None:   # a field holding a function
                fv=self.ex(f,binds); args=[self.ex(a,binds) for a in e.args]; t=self.tmp()
                binds.append("%s <- py_call %s (VList [%s]) ;; "%(t,fv,";".join(args))); return t
            if f.attr in getattr(self.mod,"method_oracles",()) and not e.keywords and f.value.id in self.vars:
                # an abstract method (the subclass decides): uninterpreted, answered by the py_call parameter
                args=[self.ex(a,binds) for a in e.args]; t=self.tmp()
                binds.append("%s <- py_call (VFun (of_string %s)) (VList [%s]) ;; "%(t,cq(f.attr),";".join(["v_"+f.value.id]+args))); return t
            raise Unsupported("abstract method call "+f.attr)
        # <param>.<method>(...) where the parameter is known to hold an object of a class of this module (hint): as self.<method>(...)
        hints=getattr(self.mod,"param_classes",{}).get(self.fn.name,{})
        if isinstance(f,ast.Attribute) and isinstance(f.value,ast.Name) and f.value.id in hints and f.value.id in self.vars:
            C=hints[f.value.id]; k=self.mod.find_method(C,f.attr)
            if k is None or self.mod.is_abstract(self.mod.classes[k]["methods"][f.attr]): raise Unsupported("method %s of %s"%(f.attr,C))
            callee=self.mod.classes[k]["methods"][f.attr]
            args=self.resolve_args(callee,e,binds,True); self.calls.add((k,f.attr))
            t=self.tmp(); r=self.tmp(); binds.append("%s <- %s py_call fuel v_%s %s ;; "%(t,gname(k,f.attr),f.value.id," ".join(args)))
            binds.append("p_ <- unpack2 %s ;; let '(%s, v_%s) := p_ in "%(t,r,f.value.id)); return r
        if (getattr(self.mod,"sub_callbacks",False) and isinstance(f,ast.Attribute) and f.attr=="sub" and len(e.args)==2 and isinstance(e.args[0],ast.Attribute)
                and isinstance(e.args[0].value,ast.Name) and e.args[0].value.id=="self" and not e.keywords):
            lam=ast.Lambda(args=ast.arguments(posonlyargs=[],args=[ast.arg(arg="m_")],kwonlyargs=[],kw_defaults=[],defaults=[]),
                           body=ast.Call(func=e.args[0],args=[ast.Name(id="m_",ctx=ast.Load())],keywords=[]))
            return self.call(ast.Call(func=f,args=[lam,e.args[1]],keywords=[]),binds)
        # X.sub(lambda m: BODY, line): matches from the py_call parameter, one translated BODY per match, py_stitch
        if (getattr(self.mod,"sub_callbacks",False) and isinstance(f,ast.Attribute) and f.attr=="sub" and len(e.args)==2 and isinstance(e.args[0],ast.Lambda)
                and len(e.args[0].args.args)==1 and not e.keywords
                and any(isinstance(n,ast.Name) and n.id==e.args[0].args.args[0].arg for n in ast.walk(e.args[0].body))):
            self.mod.need_lib2=True
            m=e.args[0].args.args[0].arg
            X=self.ex(f.value,binds); L=self.ex(e.args[1],binds); tM=self.tmp()
            binds.append("%s <- py_call (VFun (of_string \"finditer\")) (VList [%s;%s]) ;; items_ <- py_iter %s ;; let v_reps_ := (VList []) in "%(tM,X,L,tM))
            sub=[]; tm=self.tmp(); sub.append("%s <- py_getitem x_ (VInt 2) ;; let v_%s := %s in "%(tm,m,tm))
            a=self.ex(e.args[0].body,sub); ta=self.tmp()
            sub.append("%s <- py_list_append v_reps_ %s ;; let v_reps_ := %s in "%(ta,a,ta))
            binds.append("e_ <- py_for items_ (fun x_ %s => %sNormal %s) %s ;; let %s := e_ in "%(self.pat(),"".join(sub),self.env(),self.env(),self.pat()))
            tr=self.tmp(); binds.append("%s <- py_stitch %s %s v_reps_ ;; "%(tr,L,tM)); return tr
        # a function imported from a module that has its own generated unit (replace_matching_item in anonymize_files.py -> G_fn_sir2)
        if isinstance(f,ast.Name) and f.id in getattr(self.mod,"xfuncs",{}):
            xm,coqmod=self.mod.xfuncs[f.id]; callee=xm.funcs[f.id]
            args=self.resolve_args(callee,e,binds,False)
            th=Fn(xm,None,callee).thread
            t=self.tmp(); binds.append("%s <- %s.%s py_call fuel %s ;; "%(t,coqmod,gname(None,f.id)," ".join(args)))
            if th:
                k=[x.arg for x in callee.args.args].index(th); r=self.tmp(); o=self.tmp()
                binds.append("p_ <- unpack2 %s ;; let '(%s, %s) := p_ in "%(t,r,o)); binds.append(self.store(e.args[k],o)); return r
            return t
        # an uninterpreted function that updates the object it is given (anonymize_ip_addr(anonymizer, line, undo)): it answers (result, updated object)
        if isinstance(f,ast.Name) and f.id in getattr(self.mod,"thread_oracles",{}):
            k=self.mod.thread_oracles[f.id]
            pos="(VList [%s])"%";".join(self.ex(a,binds) for a in e.args)
            t=self.tmp(); r=self.tmp(); o=self.tmp()
            binds.append("%s <- py_call (VFun (of_string %s)) %s ;; p_ <- unpack2 %s ;; let '(%s, %s) := p_ in "%(t,cq(f.id),pos,t,r,o)); binds.append(self.store(e.args[k],o)); return r
        if (isinstance(f,ast.Attribute) and f.attr in getattr(self.mod,"method_oracles",()) and isinstance(f.value,ast.Attribute) and isinstance(f.value.value,ast.Name)
                and f.value.value.id=="self" and not e.keywords and not any(isinstance(a,ast.Lambda) for a in e.args)):
            obj=self.ex(f.value,binds); args=[self.ex(a,binds) for a in e.args]; t=self.tmp()
            binds.append("%s <- py_call (VFun (of_string %s)) (VList [%s]) ;; "%(t,cq(f.attr),";".join([obj]+args))); return t
        # self.<field>.<method>(...) where the field is known to hold an object of a class that has its own generated unit
        if (isinstance(f,ast.Attribute) and isinstance(f.value,ast.Attribute) and isinstance(f.value.value,ast.Name) and f.value.value.id=="self"
                and f.value.attr in getattr(self.mod,"field_classes",{}) and not e.keywords):
            C,xm,coqmod=self.mod.field_classes[f.value.attr]
            k=xm.find_method(C,f.attr)
            if k is None: raise Unsupported("method %s of %s"%(f.attr,C))
            callee=xm.classes[k]["methods"][f.attr]
            obj=self.ex(f.value,binds); args=self.resolve_args(callee,e,binds,True)
            t=self.tmp(); r=self.tmp(); o=self.tmp()
            binds.append("%s <- %s.%s py_call fuel %s %s ;; p_ <- unpack2 %s ;; let '(%s, %s) := p_ in "%(t,coqmod,gname(k,f.attr),obj," ".join(args),t,r,o))
            binds.append(self.store(f.value,o)); return r
        # self.<field>.<method>(...) on an object of another class, uninterpreted, answering (result, updated object)
        if (isinstance(f,ast.Attribute) and f.attr in getattr(self.mod,"method_thread_oracles",()) and isinstance(f.value,ast.Attribute) and isinstance(f.value.value,ast.Name)
                and f.value.value.id=="self" and not e.keywords):
            obj=self.ex(f.value,binds); args=[self.ex(a,binds) for a in e.args]
            t=self.tmp(); r=self.tmp(); o=self.tmp()
            binds.append("%s <- py_call (VFun (of_string %s)) (VList [%s]) ;; p_ <- unpack2 %s ;; let '(%s, %s) := p_ in "%(t,cq(f.value.attr+"."+f.attr),";".join([obj]+args),t,r,o))
            binds.append(self.store(f.value,o)); return r
        if (isinstance(f,ast.Attribute) and f.attr in getattr(self.mod,"method_thread_oracles",()) and isinstance(f.value,ast.Name) and f.value.id in self.vars and not e.keywords):
            obj=self.ex(f.value,binds); args=[self.ex(a,binds) for a in e.args]
            t=self.tmp(); r=self.tmp()
            binds.append("%s <- py_call (VFun (of_string %s)) (VList [%s]) ;; p_ <- unpack2 %s ;; let '(%s, v_%s) := p_ in "%(t,cq(f.attr),";".join([obj]+args),t,r,f.value.id)); return r
        # file-like parameters modelled as lists of strings
        if getattr(self.mod,"io_lists",False) and isinstance(f,ast.Attribute) and f.attr=="readlines" and not e.args and isinstance(f.value,ast.Name) and f.value.id in self.vars:
            return self.ex(f.value,binds)
        # module function / class constructor
        if isinstance(f,ast.Name) and f.id in self.mod.funcs:
            callee=self.mod.funcs[f.id]; args=self.resolve_args(callee,e,binds,False); self.calls.add((None,f.id))
            th=Fn(self.mod,None,callee).thread
            if th:
                # the callee returns (result, updated argument): rebind the variable that was passed
                k=[x.arg for x in callee.args.args].index(th)
                if not (k<len(e.args) and isinstance(e.args[k],ast.Name) and e.args[k].id in self.vars): raise Unsupported("mutated argument is not a variable")
                t=self.tmp(); r=self.tmp(); binds.append("%s <- %s py_call fuel %s ;; "%(t,gname(None,f.id)," ".join(args)))
                binds.append("p_ <- unpack2 %s ;; let '(%s, v_%s) := p_ in "%(t,r,e.args[k].id)); return r
            return self.call_gen(gname(None,f.id),args,binds,False)
        # function of an imported module that has its own generated unit (juniper_secrets.juniper_decrypt -> G_fn_jun.gen_juniper_decrypt)
        if isinstance(f,ast.Attribute) and isinstance(f.value,ast.Name) and f.value.id not in self.vars and f.value.id in getattr(self.mod,"xmods",{}):
            xm,coqmod=self.mod.xmods[f.value.id]
            if f.attr not in xm.funcs: raise Unsupported("call "+ast.unparse(f))
            saved=self.mod; callee=xm.funcs[f.attr]
            args=self.resolve_args(callee,e,binds,False)
            return self.call_gen("%s.%s"%(coqmod,gname(None,f.attr)),args,binds,False)
        # passlib: <scheme>.using(k=v, ...).hash(x)  -- uninterpreted: whatever the py_call parameter answers for ("<scheme>.using.hash", [x], {k: v})
        if (isinstance(f,ast.Attribute) and f.attr=="hash" and len(e.args)==1 and not e.keywords and isinstance(f.value,ast.Call) and isinstance(f.value.func,ast.Attribute)
                and f.value.func.attr=="using" and isinstance(f.value.func.value,ast.Name) and f.value.func.value.id in getattr(self.mod,"oracles",()) and not f.value.args):
            kw="(VDict [%s])"%";".join("(S_ %s, %s)"%(cq(k.arg),self.ex(k.value,binds)) for k in f.value.keywords)
            x=self.ex(e.args[0],binds); t=self.tmp()
            binds.append("%s <- py_call (VFun (of_string %s)) (VTuple [(VList [%s]); %s]) ;; "%(t,cq(f.value.func.value.id+".using.hash"),x,kw)); return t
        # b2a_hex(x.encode())  and  b2a_hex(x.encode()).decode()
        def is_b2a(c): return (isinstance(c,ast.Call) and isinstance(c.func,ast.Name) and c.func.id=="b2a_hex" and len(c.args)==1 and isinstance(c.args[0],ast.Call)
                               and isinstance(c.args[0].func,ast.Attribute) and c.args[0].func.attr=="encode" and not c.args[0].args)
        if is_b2a(e) or (isinstance(f,ast.Attribute) and f.attr=="decode" and not e.args and is_b2a(f.value)):
            c=e if is_b2a(e) else f.value
            self.mod.need_lib2=True
            x=self.ex(c.args[0].func.value,binds); t=self.tmp(); binds.append("%s <- py_b2a_hex_encode %s ;; "%(t,x)); return t
        # library
        A=lambda i: self.ex(e.args[i],binds)
        def lib(name,*args):
            t=self.tmp(); binds.append("%s <- %s %s ;; "%(t,name," ".join(args))); return t
        if isinstance(f,ast.Name):
            if f.id=="len": return lib("py_len",A(0))
            if f.id=="int": return lib("py_int",A(0),A(1) if len(e.args)>1 else "VNone")
            if f.id=="str": return lib("py_str",A(0))
            if f.id=="list": return lib("py_list",A(0))
            if f.id=="set" and len(e.args)==1 and getattr(self.mod,"sets_as_lists",False):
                x=lib("py_list",A(0))
                if getattr(self.mod,"sets_dedup",False):
                    self.mod.need_lib2=True; return lib("py_dedup",x)
                return x
            if f.id=="set" and not e.args and not e.keywords and getattr(self.mod,"sets_as_lists",False): return "(VList [])"
            if (f.id=="sorted" and len(e.args)==1 and len(e.keywords)==1 and e.keywords[0].arg=="key" and isinstance(e.keywords[0].value,ast.Lambda)
                    and ast.unparse(e.keywords[0].value).replace(" ","") in ("lambdaw:(-len(w),w)",)):
                # sorted(xs, key=lambda w: (-len(w), w)): longest first, equal lengths in code-point order
                self.mod.need_lib2=True
                return lib("py_sorted_lenlex",A(0))
            if f.id=="range" and len(e.args)==1: return lib("py_range",A(0))
            if f.id=="any": return lib("py_any",A(0))
            if f.id=="bidict": return lib("new_bidict",A(0))
            if f.id in ("ord","chr","enumerate","reversed","sum") and len(e.args)==1: return lib("py_"+f.id,A(0))
            if f.id=="zip" and len(e.args)==2: return lib("py_zip",A(0),A(1))
            if f.id=="divmod" and len(e.args)==2: return lib("py_divmod",A(0),A(1))
            if f.id in ("bisect_right","bisect") and len(e.args)==2: return lib("py_bisect_right",A(0),A(1))
            if f.id=="bisect_left" and len(e.args)==2: return lib("py_bisect_left",A(0),A(1))
            if f.id in ("min","max") and len(e.args)==2: return lib("py_"+f.id+"2",A(0),A(1))
            if f.id=="abs" and len(e.args)==1: return lib("py_abs",A(0))
            if f.id=="bool" and len(e.args)==1: return "(VBool (truthy %s))"%A(0)
            if f.id=="ValueError": return A(0) if e.args else "(VStr [])"
        if isinstance(f,ast.Attribute) and isinstance(f.value,ast.Name) and f.value.id=="logging":
            for a in e.args: self.ex(a,binds)          # arguments are evaluated (attribute errors would surface), the call itself has no result we use
            return "VNone"
        if isinstance(f,ast.Attribute) and f.attr=="split" and len(e.args)==1 and isinstance(e.args[0],ast.Constant) and isinstance(e.args[0].value,str) and len(e.args[0].value)==1:
            x=self.ex(f.value,binds)
            return lib("py_split1",x,"(%d)"%ord(e.args[0].value))
        if isinstance(f,ast.Attribute):
            if isinstance(f.value,ast.Name) and f.value.id=="ipaddress":
                if f.attr=="ip_network": return lib("ip_network",A(0))
                if f.attr=="ip_address": return lib("ip_address",A(0))
            if isinstance(f.value,ast.Name) and f.value.id=="re" and f.attr=="search" and isinstance(e.args[0],ast.Name) and e.args[0].id in self.mod.globs and isinstance(self.mod.globs[e.args[0].id],str):
                nm=e.args[0].id; self.mod.rx_consts[nm]=self.mod.globs[nm]
                return lib("re_search_ast","RX_"+nm,A(1))
            if isinstance(f.value,ast.Name) and f.value.id=="re" and f.attr in ("match","search") and len(e.args)==2 and isinstance(e.args[0],ast.Constant) and isinstance(e.args[0].value,str):
                pat=e.args[0].value; nm="LIT%d"%len(self.mod.rx_consts); 
                for k,v in self.mod.rx_consts.items():
                    if v==pat: nm=k
                self.mod.rx_consts[nm]=pat
                return lib("re_%s_ast"%f.attr,"RX_"+nm,A(1))
            if (f.attr=="hexdigest" and not e.args and isinstance(f.value,ast.Call) and isinstance(f.value.func,ast.Name) and f.value.func.id=="md5"
                    and len(f.value.args)==1 and isinstance(f.value.args[0],ast.Call) and isinstance(f.value.args[0].func,ast.Attribute)
                    and f.value.args[0].func.attr=="encode" and not f.value.args[0].args):
                self.mod.need_hash=True
                x=self.ex(f.value.args[0].func.value,binds)
                return lib("py_md5_hexdigest",x)
            if f.attr=="join" and len(e.args)==1:
                sep=self.ex(f.value,binds); x=A(0)
                return lib("py_join",sep,x)
            if f.attr in ("startswith","endswith") and len(e.args)==1:
                x=self.ex(f.value,binds)
                return lib("py_"+f.attr,x,A(0))
            if f.attr in ("lower","upper") and not e.args:
                x=self.ex(f.value,binds)
                return lib("py_"+f.attr,x)
            if f.attr=="format":
                o=self.ex(f.value,binds); args="(VList [%s])"%";".join(self.ex(a,binds) for a in e.args)
                kw="(VDict [%s])"%";".join("(S_ %s, %s)"%(cq(k.arg),self.ex(k.value,binds)) for k in e.keywords)
                return lib("py_format",o,args,kw)
            if f.attr=="get" and len(e.args)==1:
                o=self.ex(f.value,binds); return lib("py_get",o,A(0))
            if f.attr=="items" and not e.args and not e.keywords:
                self.mod.need_lib2=True
                x=self.ex(f.value,binds); return lib("py_items",x)
            if f.attr in ("lstrip","rstrip") and not e.args:
                self.mod.need_lib2=True
                x=self.ex(f.value,binds); return lib("py_"+f.attr,x)
            if f.attr=="split" and not e.args:
                self.mod.need_lib2=True
                x=self.ex(f.value,binds); return lib("py_split_ws",x)
            # a method of an object held in a local variable (compiled pattern, match object): uninterpreted, answered by the py_call parameter
            if f.attr in getattr(self.mod,"method_oracles",()) and isinstance(f.value,ast.Name) and f.value.id in self.vars and not e.keywords:
                o=self.ex(f.value,binds); name=f.attr; args=[]
                for a in e.args:
                    if isinstance(a,ast.Lambda):
                        # lambda _: <expression not mentioning its parameter>: a constant function, passed as its value
                        ps=[x.arg for x in a.args.args]
                        if any(isinstance(n,ast.Name) and n.id in ps for n in ast.walk(a.body)): raise Unsupported("lambda uses its parameter")
                        name=f.attr+"_const"; args.append(self.ex(a.body,binds))
                    else: args.append(self.ex(a,binds))
                t=self.tmp(); binds.append("%s <- py_call (VFun (of_string %s)) (VList [%s]) ;; "%(t,cq(name),";".join([o]+args))); return t
        raise Unsupported("call "+ast.unparse(f))
    # ---- stores (lenses) --------------------------------------------------
    def store(self,target,val):
        """returns coq text that rebinds variables so that `target = val`"""
        if isinstance(target,ast.Name): return "let v_%s := %s in "%(target.id,val)
        if isinstance(target,ast.Attribute):
            b=[]; o=self.ex(target.value,b); t=self.tmp()
            return "".join(b)+"%s <- py_setattr %s %s %s ;; "%(t,o,cq(target.attr),val)+self.store(target.value,t)
        if isinstance(target,ast.Subscript) and not isinstance(target.slice,ast.Slice):
            b=[]; o=self.ex(target.value,b); k=self.ex(target.slice,b); t=self.tmp()
            return "".join(b)+"%s <- py_setitem %s %s %s ;; "%(t,o,k,val)+self.store(target.value,t)
        if isinstance(target,ast.Tuple) and len(target.elts)==2:
            a,b_=self.tmp(),self.tmp()
            return "p_ <- unpack2 %s ;; let '(%s, %s) := p_ in "%(val,a,b_)+self.store(target.elts[0],a)+self.store(target.elts[1],b_)
        if isinstance(target,ast.Tuple) and len(target.elts)==3:
            self.mod.need_lib2=True
            a,b_,c_=self.tmp(),self.tmp(),self.tmp()
            return "p_ <- unpack3 %s ;; let '(%s, %s, %s) := p_ in "%(val,a,b_,c_)+self.store(target.elts[0],a)+self.store(target.elts[1],b_)+self.store(target.elts[2],c_)
        raise Unsupported("target "+ast.dump(target)[:60])
    # ---- statements -------------------------------------------------------
    def ret(self,atom):
        if self.thread: return "Ret (VTuple [%s; v_%s])"%(atom,self.thread)
        if self.thread2: return "Ret (VTuple [%s; v_self; v_%s])"%(atom,self.thread2)
        return "Ret (VTuple [%s; v_self])"%atom if self.is_method else "Ret %s"%atom
    def block(self, stmts, ind):
        sp="  "*ind
        if not stmts: return sp+"Normal %s"%self.env()
        s,rest=stmts[0],stmts[1:]
        if isinstance(s,ast.Expr) and isinstance(s.value,ast.Constant): return self.block(rest,ind)
        if isinstance(s,ast.Pass): return self.block(rest,ind)
        if isinstance(s,ast.Assign) and len(s.targets)==1:
            b=[]; a=self.ex(s.value,b); return sp+"".join(b)+self.store(s.targets[0],a)+"\n"+self.block(rest,ind)
        if isinstance(s,ast.Return):
            b=[]; a=self.ex(s.value,b) if s.value is not None else "VNone"; return sp+"".join(b)+self.ret(a)
        if isinstance(s,ast.If):
            b=[]; c=self.ex(s.test,b)
            return (sp+"".join(b)+"e_ <~ (if truthy %s then\n%s\n%selse\n%s) ;; let %s := e_ in\n"%(c,self.block(s.body,ind+1),sp,self.block(s.orelse,ind+1),self.pat()))+self.block(rest,ind)
        if isinstance(s,ast.For) and not s.orelse and isinstance(s.target,ast.Name):
            b=[]; it=self.ex(s.iter,b)
            return (sp+"".join(b)+"items_ <- py_iter %s ;; e_ <~ py_for items_ (fun x_ %s => let v_%s := x_ in \n%s) %s ;; let %s := e_ in\n"%(it,self.pat(),s.target.id,self.block(s.body,ind+1),self.env(),self.pat()))+self.block(rest,ind)
        if isinstance(s,ast.For) and not s.orelse and isinstance(s.target,ast.Tuple) and len(s.target.elts)==2 and all(isinstance(x,ast.Name) for x in s.target.elts):
            b=[]; it=self.ex(s.iter,b)
            return (sp+"".join(b)+"items_ <- py_iter %s ;; e_ <~ py_for items_ (fun x_ %s => p_ <- unpack2 x_ ;; let '(v_%s, v_%s) := p_ in \n%s) %s ;; let %s := e_ in\n"%(it,self.pat(),s.target.elts[0].id,s.target.elts[1].id,self.block(s.body,ind+1),self.env(),self.pat()))+self.block(rest,ind)
        if isinstance(s,ast.While) and not s.orelse:
            b=[]; c=self.ex(s.test,b)
            if any("v_self) := p_" in x for x in b): raise Unsupported("effect in loop condition")
            return (sp+"e_ <~ py_while fuel (fun %s => %sNormal (truthy %s)) (fun %s =>\n%s) %s ;; let %s := e_ in\n"%(self.pat(),"".join(b),c,self.pat(),self.block(s.body,ind+1),self.env(),self.pat()))+self.block(rest,ind)
        if isinstance(s,ast.AugAssign) and isinstance(s.target,ast.Name) and type(s.op) in BIN:
            b=[]; a=self.ex(s.value,b); t=self.tmp()
            return sp+"".join(b)+"%s <- %s v_%s %s ;; let v_%s := %s in\n"%(t,BIN[type(s.op)],s.target.id,a,s.target.id,t)+self.block(rest,ind)
        if (isinstance(s,ast.Try) and not s.orelse and not s.finalbody and len(s.body)==1 and isinstance(s.body[0],ast.Assign) and len(s.body[0].targets)==1
                and isinstance(s.body[0].targets[0],ast.Name) and len(s.handlers)==1 and isinstance(s.handlers[0].type,ast.Name) and s.handlers[0].type.id=="ValueError"
                and s.handlers[0].name is None and all(isinstance(x,ast.Pass) for x in s.handlers[0].body)):
            self.mod.need_lib2=True
            b=[]; a=self.ex(s.body[0].value,b); v=s.body[0].targets[0].id
            if any("v_self) := p_" in x for x in b): raise Unsupported("effect in try")
            return sp+"o_ <- py_try_ve (%sNormal %s) ;; let v_%s := match o_ with Some x_ => x_ | None => v_%s end in\n"%("".join(b),a,v,v)+self.block(rest,ind)
        if (isinstance(s,ast.Try) and not s.orelse and not s.finalbody and len(s.body)==1 and isinstance(s.body[0],ast.Assign) and len(s.body[0].targets)==1
                and isinstance(s.body[0].targets[0],ast.Name) and len(s.handlers)==1 and isinstance(s.handlers[0].type,ast.Name) and s.handlers[0].type.id=="ValueError"
                and s.handlers[0].name is None and not all(isinstance(x,ast.Pass) for x in s.handlers[0].body)):
            self.mod.need_lib2=True
            b=[]; a=self.ex(s.body[0].value,b); v=s.body[0].targets[0].id
            if any("v_self) := p_" in x for x in b): raise Unsupported("effect in try")
            return (sp+"o_ <- py_try_ve (%sNormal %s) ;; e_ <~ (match o_ with Some x_ => let v_%s := x_ in Normal %s | None =>\n%s\n%send) ;; let %s := e_ in\n"
                    %("".join(b),a,v,self.env(),self.block(s.handlers[0].body,ind+1),sp,self.pat()))+self.block(rest,ind)
        if isinstance(s,ast.Break): return sp+"Brk %s"%self.env()
        if isinstance(s,ast.Continue): return sp+"Cont %s"%self.env()
        if isinstance(s,ast.Raise) and isinstance(s.exc,ast.Call) and isinstance(s.exc.func,ast.Name) and s.exc.func.id=="ValueError":
            b=[]; a=self.ex(s.exc,b); return sp+"".join(b)+"Exc (ValueError (match %s with VStr m => m | _ => [] end))"%a
        if isinstance(s,ast.Expr) and isinstance(s.value,ast.Call) and isinstance(s.value.func,ast.Attribute) and s.value.func.attr in ("append","insert") and isinstance(s.value.func.value,ast.Name) and s.value.func.value.id in self.vars:
            v=s.value.func.value.id; b=[]; args=[self.ex(a,b) for a in s.value.args]; t=self.tmp()
            op="py_list_append v_%s %s"%(v,args[0]) if s.value.func.attr=="append" and len(args)==1 else ("py_list_insert v_%s %s %s"%(v,args[0],args[1]) if len(args)==2 else None)
            if op is None: raise Unsupported("list method arity")
            return sp+"".join(b)+"%s <- %s ;; let v_%s := %s in\n"%(t,op,v,t)+self.block(rest,ind)
        if (getattr(self.mod,"io_lists",False) and isinstance(s,ast.Expr) and isinstance(s.value,ast.Call) and isinstance(s.value.func,ast.Attribute) and s.value.func.attr=="write"
                and isinstance(s.value.func.value,ast.Name) and s.value.func.value.id==self.thread2 and len(s.value.args)==1):
            b=[]; a=self.ex(s.value.args[0],b); t=self.tmp(); v=self.thread2
            return sp+"".join(b)+"%s <- py_list_append v_%s %s ;; let v_%s := %s in\n"%(t,v,a,v,t)+self.block(rest,ind)
        if isinstance(s,ast.Expr) and isinstance(s.value,ast.Call):
            c=s.value; f=c.func
            if isinstance(f,ast.Attribute) and f.attr=="update" and len(c.args)==1 and isinstance(f.value,ast.Name) and f.value.id in self.vars and getattr(self.mod,"sets_as_lists",False):
                self.mod.need_lib2=True
                b=[]; a=self.ex(c.args[0],b); t=self.tmp(); t2=self.tmp()
                return sp+"".join(b)+"%s <- py_set_union v_%s %s ;; %s <- py_dedup %s ;; let v_%s := %s in\n"%(t,f.value.id,a,t2,t,f.value.id,t2)+self.block(rest,ind)
            if isinstance(f,ast.Attribute) and f.attr=="extend" and isinstance(f.value,ast.Name) and f.value.id in self.vars:
                b=[]; a=self.ex(c.args[0],b); t=self.tmp()
                return sp+"".join(b)+"%s <- py_list_extend v_%s %s ;; let v_%s := %s in\n"%(t,f.value.id,a,f.value.id,t)+self.block(rest,ind)
            if isinstance(f,ast.Attribute) and isinstance(f.value,ast.Name) and f.value.id=="logging": return self.block(rest,ind)
            b=[]; self.ex(c,b); return sp+"".join(b)+"\n"+self.block(rest,ind)
        raise Unsupported("stmt "+ast.dump(s)[:70])
    def emit(self):
        body=self.block(self.fn.body,2)
        ps=" ".join("(v_%s:pyval)"%p for p in self.params)
        init="".join("let v_%s := VNone in "%v for v in self.vars if v not in self.params)
        name=gname(self.cls,self.fn.name)
        rec = (self.cls,self.fn.name) in self.calls
        tail = ("Ret (VTuple [VNone; v_self; v_%s])"%self.thread2) if self.thread2 else "Ret (VTuple [VNone; v_self])" if self.is_method else ("Ret (VTuple [VNone; v_%s])"%self.thread if self.thread else "Ret VNone")
        core=" call (%s\n e_ <- ((\n%s) : ctl (%s)) ;; let %s := e_ in %s)"%(init,body,self.ety(),self.pat(),tail)
        if rec:
            return "Fixpoint %s (py_call : pyval -> pyval -> res) (fuel:nat) %s {struct fuel} : res :=\n match fuel with O => Exc OutOfFuel | S fuel =>\n%s\n end."%(name,ps,core)
        return "Definition %s (py_call : pyval -> pyval -> res) (fuel:nat) %s : res :=\n%s.\n#[global] Hint Unfold %s : gen_db."%(name,ps,core,name)
    def stub(self, reason):
        """a refused function keeps its name and arity (so that unrelated dependents still compile) but can only fail"""
        ps=" ".join("(v_%s:pyval)"%p for p in self.params)
        return "(* REFUSED by the translator: %s *)\nDefinition %s (py_call : pyval -> pyval -> res) (fuel:nat) %s : res := Exc Unsupported."%(reason.replace("*)","* )"),gname(self.cls,self.fn.name),ps)


def translate_module(path, pymod, wanted=None, oracles=(), xmods=None, external=(), requires=(), method_oracles=(), xfuncs=None, thread_oracles=None, method_thread_oracles=(), io_lists=False, global_oracles=(), sets_as_lists=False, sets_dedup=False,
                     param_classes=None, sub_callbacks=False, field_classes=None):
    """returns (coq text, translated names, {failed name: reason}).
    xmods: {python module name as written in the source: (python module object, Coq module holding its generated functions)};
    external: functions of this module that another generated unit already defines (named in `requires`): translated for their signature, not emitted"""
    mod=Mod(path,pymod); mod.oracles=set(oracles); mod.method_oracles=set(method_oracles); mod.global_oracles=set(global_oracles); mod.sets_as_lists=sets_as_lists; mod.sets_dedup=sets_dedup
    mod.xmods={k:(Mod(v[0].__file__,v[0]),v[1]) for k,v in (xmods or {}).items()}
    mod.xfuncs={k:(Mod(v[0].__file__,v[0]),v[1]) for k,v in (xfuncs or {}).items()}
    for k,v in (xfuncs or {}).items():
        xm=mod.xfuncs[k][0]; xm.method_oracles=set(); xm.oracles=set()
        for a,b in (v[2] if len(v)>2 else {}).items(): setattr(xm,a,b)      # how that module's own unit is configured (decides which parameters it threads)
    mod.param_classes=dict(param_classes or {}); mod.sub_callbacks=sub_callbacks
    mod.field_classes={k:(v[0],Mod(v[1].__file__,v[1]),v[2]) for k,v in (field_classes or {}).items()}
    mod.thread_oracles=dict(thread_oracles or {}); mod.method_thread_oracles=set(method_thread_oracles); mod.io_lists=io_lists
    out=["(* GENERATED by tools/translate.py from %s -- do not edit *)"%path,"From Coq Require Import List ZArith String.","Require Import PyLib.","Import ListNotations.","Local Open Scope Z_scope.","Local Open Scope string_scope.","",
         "(* every generated function takes py_call: the call of a function-valued field (dispatcher / oracle) *)",""]
    items=[]
    for c,info in mod.classes.items():
        for m,fn in info["methods"].items():
            if not mod.is_abstract(fn): items.append((c,m,fn))
    for f,fn in mod.funcs.items(): items.append((None,f,fn))
    failed={}; trs={}; stubs={}
    for c,m,fn in items:
        if wanted and (c,m) not in wanted and m not in wanted: continue
        try:
            F=Fn(mod,c,fn); txt=F.emit(); trs[(c,m)]=(F,txt)
        except Unsupported as e: failed[(c,m)]=str(e); stubs[(c,m)]=Fn(mod,c,fn).stub(str(e))
        except Exception as e: failed[(c,m)]="translator error: %s"%e; stubs[(c,m)]=Fn(mod,c,fn).stub("translator error")
    # functions the translated ones call are part of the unit even when not asked for (a helper extracted by a later edit of the source)
    allitems={(c,m):fn for c,m,fn in items}
    grew=True
    while grew:
        grew=False
        for k in list(trs):
            for d in trs[k][0].calls:
                if d in trs or d in failed or d not in allitems: continue
                grew=True
                try:
                    F=Fn(mod,d[0],allitems[d]); txt=F.emit(); trs[d]=(F,txt)
                except Unsupported as e: failed[d]=str(e); stubs[d]=Fn(mod,d[0],allitems[d]).stub(str(e))
                except Exception as e: failed[d]="translator error: %s"%e; stubs[d]=Fn(mod,d[0],allitems[d]).stub("translator error")
    order=[]; seen=set()
    def visit(k):
        if k in seen or k not in trs: return
        seen.add(k)
        for d in trs[k][0].calls:
            if d!=k: visit(d)
        order.append(k)
    for k in trs: visit(k)
    done=[]
    hdr_extra=[]
    for g in mod.used_globs: hdr_extra.append("Definition g_%s : pyval := %s."%(g,coq_val(mod.globs[g])))
    emitted_text="\n".join(trs[k][1] for k in order if not (k[1] in external and k[0] is None))
    rx_used={nm:pat for nm,pat in mod.rx_consts.items() if ("RX_"+nm) in emitted_text}
    if rx_used:
        import rxgen
        E=rxgen.Emitter(); rx=[]
        for nm,pat in rx_used.items():
            t,_,_=E.pattern(pat,0); rx.append("Definition RX_%s : re := %s."%(nm,t))
        hdr_extra += ["Require Import Rx PyRe.", E.set_defs()] + rx
    if getattr(mod,"need_hash",False): hdr_extra.append("Require Import PyHash.")
    if any(w in emitted_text for w in ("unpack3","py_try_ve","py_str_repeat","py_b2a_hex_encode","py_lstrip","py_rstrip","py_split_ws","py_stitch","py_items","py_set_union","py_dedup","py_sorted_lenlex","py_in2")): hdr_extra.append("Require Import PyLib2.")
    for r in requires: hdr_extra.append("Require Import %s."%r)
    for k,(xm,cm) in mod.xmods.items(): hdr_extra.append("Require %s."%cm)
    for cm in sorted(set(v[1] for v in mod.xfuncs.values())|set(v[2] for v in mod.field_classes.values())): hdr_extra.append("Require %s."%cm)
    out[out.index("")+0:out.index("")+0]=hdr_extra
    for k,txt in stubs.items():
        out.append(txt); out.append("")
    for k in order:
        if k[1] in external and k[0] is None: continue
        out.append("(* %s.%s : line %d *)"%(k[0],k[1],trs[k][0].fn.lineno)); out.append(trs[k][1]); out.append(""); done.append("%s.%s"%k)
    return "\n".join(out)+"\n", done, {"%s.%s"%k:v for k,v in failed.items()}
