#!/usr/bin/env python3
"""mutants_batch.py <name> [<name> ...]   (meant for `vp run --with-repo`)
For each seeded change: apply it to the repo copy in $VP_RUN_REPO (NETCONAN_REPO), run every quick check of this /verif snapshot, revert.
Prints one line per (mutant, property)."""
import json
import os
import subprocess
import sys

here = os.path.dirname(os.path.dirname(os.path.abspath(__file__)))
repo = os.environ.get("VP_RUN_REPO") or os.environ["NETCONAN_REPO"]
env = dict(os.environ, NETCONAN_REPO=repo)
props = [c["property_id"] for c in json.load(open(os.path.join(here, "MANIFEST.json")))["checks"]]
subprocess.run(["/venv/bin/python", os.path.join(here, "tools", "setup.py")], env=env, cwd=here, capture_output=True)
for name in sys.argv[1:]:
    patch = os.path.join(here, os.environ.get("SEEDED_DIR", "seeded"), name, "patch.diff")
    r = subprocess.run(["git", "-C", repo, "apply", patch], capture_output=True, text=True)
    if r.returncode != 0:
        print(name, "PATCH-FAILED", r.stderr[:200], flush=True)
        continue
    try:
        for p in props:
            r = subprocess.run(["/venv/bin/python", os.path.join(here, "tools", "check.py"), p], capture_output=True, text=True, cwd=here, env=env)
            lines = [l for l in r.stdout.split("\n") if l.startswith(("VIOLATION", "OK "))]
            deg = " TIE-DEGRADED" if any(l.startswith("TIE-DEGRADED") for l in r.stdout.split("\n")) else ""
            print(name, p, r.returncode, (lines[-1] if lines else (r.stdout + r.stderr)[-200:])[:150] + deg, flush=True)
    finally:
        subprocess.run(["git", "-C", repo, "checkout", "--", "."])
