#!/venv/bin/python
"""setup_cmd: build everything from files on disk (offline): coq_makefile, full .vo build, extraction, OCaml driver."""
import os
import sys

sys.path.insert(0, os.path.dirname(os.path.abspath(__file__)))
import vlib  # noqa

vlib.sh("coq_makefile -f _CoqProject -o Makefile", cwd=vlib.COQ, timeout=120)
b = vlib.build(log=os.path.join(vlib.OUT, "setup.build.log"))
print("gen:", b["gen"])
print("failed:", b["failed"], "driver_ok:", b["driver_ok"], "wall_s:", b["wall_s"])
sys.exit(0 if not b["failed"] and b["driver_ok"] else 1)
