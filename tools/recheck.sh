#!/bin/bash
# recheck.sh <prop>:<tier>:<seed> ...   run the named checks (for `vp run --with-repo`, against the private repo copy) and print the verdict lines
cd "$(dirname "$0")/.."
[ -n "$VP_RUN_REPO" ] && export NETCONAN_REPO="$VP_RUN_REPO"
/venv/bin/python tools/setup.py >/dev/null 2>&1
for spec in "$@"; do
  IFS=: read p t s <<< "$spec"
  echo "== $p $t seed=$s"
  VERIF_SEED=$s /venv/bin/python tools/check.py $p --tier $t 2>&1 | grep "^VIOLATION\|^OK \|^TIE-DEGRADED"
done
