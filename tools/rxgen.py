"""Regex part of the translator: Python `re` pattern -> term of the inductive `re` of coq/lib/Rx.v.

Uses CPython's own parser (re._parser) so the AST is the one this interpreter executes.  Fail-closed: any opcode
outside the supported subset, a variable-width look-behind, or a nullable repeat body raises Unsupported.
Character classes are emitted as explicit sorted code-point ranges computed from the running interpreter."""
import json
import os
import re
import sys

try:
    import re._parser as sre_parse
    import re._constants as sre_c
except ImportError:  # pragma: no cover
    import sre_parse
    import sre_constants as sre_c

MAXU = 0x10FFFF


class Unsupported(Exception):
    pass


# ----------------------------------------------------------------------------- code point sets
def _ranges_from_pred(pred):
    out, start = [], None
    for c in range(MAXU + 1):
        if pred(c):
            if start is None:
                start = c
        elif start is not None:
            out.append((start, c - 1))
            start = None
    if start is not None:
        out.append((start, MAXU))
    return out


_CAT_CACHE = None


def categories():
    """ranges of \\d, \\s, \\w for str patterns in this interpreter (cached per interpreter version)"""
    global _CAT_CACHE
    if _CAT_CACHE is not None:
        return _CAT_CACHE
    cache = os.path.join(os.path.dirname(os.path.dirname(os.path.abspath(__file__))), "out", "unicode_cats_%s.json" % "_".join(map(str, sys.version_info[:3])))
    if os.path.exists(cache):
        _CAT_CACHE = {k: [tuple(r) for r in v] for k, v in json.load(open(cache)).items()}
        return _CAT_CACHE
    d, s, w = re.compile(r"\d"), re.compile(r"\s"), re.compile(r"\w")
    res = {
        "digit": _ranges_from_pred(lambda c: d.fullmatch(chr(c)) is not None),
        "space": _ranges_from_pred(lambda c: s.fullmatch(chr(c)) is not None),
        "word": _ranges_from_pred(lambda c: w.fullmatch(chr(c)) is not None),
    }
    os.makedirs(os.path.dirname(cache), exist_ok=True)
    json.dump(res, open(cache, "w"))
    _CAT_CACHE = res
    return res


def norm(ranges):
    ranges = sorted(ranges)
    out = []
    for a, b in ranges:
        if out and a <= out[-1][1] + 1:
            out[-1] = (out[-1][0], max(out[-1][1], b))
        else:
            out.append((a, b))
    return out


def complement(ranges):
    out, prev = [], 0
    for a, b in norm(ranges):
        if a > prev:
            out.append((prev, a - 1))
        prev = b + 1
    if prev <= MAXU:
        out.append((prev, MAXU))
    return out


_FOLD = None


def _fold_tables():
    global _FOLD
    if _FOLD is None:
        low, up = {}, {}
        for c in range(MAXU + 1):
            ch = chr(c)
            l, u = ch.lower(), ch.upper()
            if l != ch or u != ch:
                low.setdefault(l, []).append(c)
                up.setdefault(u, []).append(c)
        _FOLD = (low, up)
    return _FOLD


def icase_set(c):
    """all code points that the literal chr(c) matches under re.IGNORECASE (verified with re itself)"""
    low, up = _fold_tables()
    ch = chr(c)
    cand = {c}
    for k in {ch, ch.lower(), ch.upper()}:
        cand.update(low.get(k, []))
        cand.update(up.get(k, []))
        cand.update(ord(x) for x in k if len(k) == 1)
    cand.update([0x130, 0x131, 0x17F, 0x212A, 0x1E9E, 0xDF])
    pat = re.compile(re.escape(ch), re.I)
    return sorted(x for x in cand if pat.fullmatch(chr(x)))


def set_of_in(items, icase):
    cats = categories()
    neg = False
    rs = []
    for op, av in items:
        if op is sre_c.NEGATE:
            neg = True
        elif op is sre_c.LITERAL:
            rs += [(x, x) for x in icase_set(av)] if icase else [(av, av)]
        elif op is sre_c.RANGE:
            lo, hi = av
            if icase:
                if hi - lo > 300:
                    raise Unsupported("large case-insensitive range")
                for c in range(lo, hi + 1):
                    rs += [(x, x) for x in icase_set(c)]
            else:
                rs.append((lo, hi))
        elif op is sre_c.CATEGORY:
            name = str(av)
            table = {"CATEGORY_DIGIT": cats["digit"], "CATEGORY_SPACE": cats["space"], "CATEGORY_WORD": cats["word"],
                     "CATEGORY_NOT_DIGIT": complement(cats["digit"]), "CATEGORY_NOT_SPACE": complement(cats["space"]), "CATEGORY_NOT_WORD": complement(cats["word"])}
            if name not in table:
                raise Unsupported("category " + name)
            rs += table[name]
        else:
            raise Unsupported("set item %s" % (op,))
    rs = norm(rs)
    return complement(rs) if neg else rs


# ----------------------------------------------------------------------------- AST -> Coq
class Emitter:
    def __init__(self):
        self.sets = {}       # tuple(ranges) -> name
        self.order = []

    def cset(self, ranges):
        key = tuple(ranges)
        if key not in self.sets:
            self.sets[key] = "cs%d" % len(self.sets)
            self.order.append(key)
        return self.sets[key]

    def set_defs(self):
        out = []
        for key in self.order:
            out.append("Definition %s : cset := CRanges false [%s]." % (self.sets[key], "; ".join("(%d%%N, %d%%N)" % r for r in key)))
        return "\n".join(out) + "\n"

    def seq(self, items, icase):
        terms = [self.item(op, av, icase) for op, av in items]
        if not terms:
            return "Eps"
        t = terms[-1]
        for x in reversed(terms[:-1]):
            t = "(Seq %s %s)" % (x, t)
        return t

    def item(self, op, av, icase):
        if op is sre_c.LITERAL:
            return "(Chr %s)" % self.cset(norm([(x, x) for x in icase_set(av)]) if icase else [(av, av)])
        if op is sre_c.NOT_LITERAL:
            return "(Chr %s)" % self.cset(complement([(x, x) for x in icase_set(av)] if icase else [(av, av)]))
        if op is sre_c.ANY:
            return "(Chr %s)" % self.cset(complement([(10, 10)]))
        if op is sre_c.IN:
            return "(Chr %s)" % self.cset(set_of_in(av, icase))
        if op is sre_c.BRANCH:
            alts = [self.seq(list(b), icase) for b in av[1]]
            t = alts[-1]
            for x in reversed(alts[:-1]):
                t = "(Alt %s %s)" % (x, t)
            return t
        if op is sre_c.SUBPATTERN:
            group, add_flags, del_flags, sub = av
            if add_flags or del_flags:
                raise Unsupported("inline flags")
            inner = self.seq(list(sub), icase)
            return inner if group is None else "(Grp %d%%nat %s)" % (group, inner)
        if op in (sre_c.MAX_REPEAT, sre_c.MIN_REPEAT):
            lo, hi, sub = av
            wlo, whi = sub.getwidth()
            if whi == 0:
                # a repeated zero-width assertion, e.g. `(?=/(\d{1,3}))?`: position-wise it is the assertion itself
                # (lo >= 1) or nothing (lo = 0); groups captured inside are not available to the model
                return self.seq(list(sub), icase) if lo >= 1 else "Eps"
            if wlo == 0:
                raise Unsupported("repeat of a nullable body")
            inner = self.seq(list(sub), icase)
            his = "None" if hi is sre_c.MAXREPEAT or hi == sre_c.MAXREPEAT else "(Some %d%%nat)" % hi
            if lo > 2000 or (hi != sre_c.MAXREPEAT and hi > 2000):
                raise Unsupported("huge repeat count")
            return "(Rep %s %s %d%%nat %s)" % ("true" if op is sre_c.MAX_REPEAT else "false", inner, lo, his)
        if op in (sre_c.ASSERT, sre_c.ASSERT_NOT):
            direction, sub = av
            neg = "true" if op is sre_c.ASSERT_NOT else "false"
            inner = self.seq(list(sub), icase)
            if direction == 1:
                return "(Look true %s 0 %s)" % (neg, inner)
            wlo, whi = sub.getwidth()
            if wlo != whi:
                raise Unsupported("variable-width look-behind")
            return "(Look false %s %d%%nat %s)" % (neg, wlo, inner)
        if op is sre_c.AT:
            name = str(av)
            if name in ("AT_BEGINNING", "AT_BEGINNING_STRING"):
                return "Bol"
            if name == "AT_END":
                return "Eol"
            if name == "AT_END_STRING":
                return "Eos"
            raise Unsupported(name)
        raise Unsupported("opcode %s" % (op,))

    def pattern(self, pat, flags=0):
        """pat: pattern string; flags: re flags of the compiled object. Returns (coq term, ngroups, groupindex)"""
        allowed = re.IGNORECASE | re.UNICODE
        if flags & ~allowed:
            raise Unsupported("flags %r" % flags)
        p = sre_parse.parse(pat, flags)
        icase = bool(p.state.flags & re.IGNORECASE)
        if p.state.flags & ~(allowed):
            raise Unsupported("inline flags %r" % p.state.flags)
        return self.seq(list(p), icase), p.state.groups - 1, dict(p.state.groupdict)
