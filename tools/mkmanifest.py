#!/usr/bin/env python3
"""Writes /verif/MANIFEST.json from the table below (kept in one place so that it stays valid)."""
import json
import os

VERIF = os.path.dirname(os.path.dirname(os.path.abspath(__file__)))
props = [json.loads(l)["id"] for l in open(os.path.join(VERIF, "properties.jsonl"))]

CLAIMED = {
    "C01": dict(
        text="Coq theorems for every flip function, width, host-bit count and preserved list (common-prefix length preserved, injective, surjective; the memoised code returns the pure mapping on every request history); the executable model is tied to /repo by a differential run against the real classes on every check.",
        note="Trusted: Coq kernel; hand-written model lib/Memo.v + model/IpModel.v tied by the correspondence run (sampled); lib/Md5.v; ipaddress option parsing not modelled. Axioms: none.",
        technique="Coq proof (induction over bit strings and request histories) + model/implementation correspondence via extracted OCaml",
        ref="DESIGN.md section 6, C01"),
}
NA_REASON = "check not built yet in this round (work in progress; see DESIGN.md section 9 for the order of work)"

checks = []
for pid in props:
    if pid in CLAIMED:
        c = CLAIMED[pid]
        checks.append({
            "property_id": pid,
            "quick_cmd": "/venv/bin/python tools/check.py %s --tier quick" % pid,
            "thorough_cmd": "/venv/bin/python tools/check.py %s --tier thorough" % pid,
            "evidence_file": "/verif/evidence/%s.json" % pid,
            "replay_cmd_template": "/venv/bin/python tools/check.py %s --replay {path}" % pid,
            "engine": "coq-proof+correspondence",
            "level_claimed": {"category": "proof", "text": c["text"], "design_ref": c["ref"]},
            "level_note": c["note"],
            "technique": c["technique"],
        })
manifest = {
    "version": 1,
    "setup_cmd": "/venv/bin/python tools/setup.py",
    "hooks": {
        "guard": "NETCONAN_VERIF",
        "enable": "no source hooks are needed: the harness observes netconan from outside (PYTHONPATH=/repo); NETCONAN_VERIF=1 is exported by the checks but read by nothing in /repo",
        "baseline_off_cmd": "cd /repo && /venv/bin/python -m pytest -ra -q -p no:cacheprovider --timeout=900 --continue-on-collection-errors",
        "source_commits": [],
        "add_only": True,
    },
    "engines": [{
        "name": "coq-proof+correspondence", "path": "tools/check.py",
        "serves_properties": sorted(CLAIMED),
        "kind_free_text": "Coq 8.16.1 theorems over an executable Gallina model (coq/lib, coq/model), generated data units (coq/gen, regenerated from /repo on every run), correspondence check model-vs-implementation through OCaml extraction, property-text oracles searching the implementation for a concrete failing input",
    }],
    "checks": checks,
    "not_applicable": [{"property_id": p, "reason": NA_REASON} for p in props if p not in CLAIMED],
    "notes": "See DESIGN.md. Every check rebuilds the generated Coq units and the extracted model from /repo's working tree.",
}
json.dump(manifest, open(os.path.join(VERIF, "MANIFEST.json"), "w"), indent=1)
print("claimed:", sorted(CLAIMED), "n/a:", len(manifest["not_applicable"]))
