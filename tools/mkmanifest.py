#!/usr/bin/env python3
"""Writes /verif/MANIFEST.json from the table below (kept in one place so that it stays valid)."""
import json
import os

VERIF = os.path.dirname(os.path.dirname(os.path.abspath(__file__)))
props = [json.loads(l)["id"] for l in open(os.path.join(VERIF, "properties.jsonl"))]

CLAIMED = {
    "C01": dict(
        text="Coq theorems for every flip function, width, host-bit count and preserved list (common-prefix length preserved, injective, surjective; the memoised code returns the pure mapping on every request history); the executable model is tied to /repo by a differential run against the real classes on every check.",
        note="Trusted: Coq kernel; hand-written model lib/Memo.v + model/IpModel.v tied by the correspondence run (sampled); lib/Md5.v; ipaddress option parsing not modelled. Axioms: none.",
        technique="Coq proof (induction over bit strings and request histories) + model/implementation correspondence via extracted OCaml",
        ref="DESIGN.md section 6, C01"),
    "C02": dict(
        text="Coq theorems: both inverses hold for every flip function/width/host bits/preserved list; a freshly constructed instance satisfies the memo invariant and from any state satisfying it every undo/anonymize request returns the pure pre-image/image without raising. The model is tied to /repo by a differential run in which each side undoes its own images on a cold instance.",
        note="File-level --undo (text) is covered by the text-pipeline checks when built; trusted: Coq kernel, hand model + correspondence (sampled), lib/Md5.v. Axioms: none.",
        technique="Coq proof (inverse lemmas + memo invariant by induction over histories) + per-side cold-undo correspondence",
        ref="DESIGN.md section 6, C02"),
    "C03": dict(
        text="Coq theorem: for every finite request history (any interleaving of anonymize/undo, any repetition) on a fresh or any reachable memo, each answer equals the history-free function; corollary: the same request gets the same answer in any two histories. Correspondence compares, per request, the answer inside a history with the answer of a fresh instance, on both sides.",
        note="Trusted: Coq kernel; hand model lib/Memo.v tied by correspondence; file/run level partitioning is covered through anonymize_files in C16/C17 checks. Axioms: none.",
        technique="Coq proof (invariant of the shared bidict memo, induction over request histories) + history-vs-fresh correspondence",
        ref="DESIGN.md section 6, C03"),
    "C04": dict(
        text="Coq theorems for every flip function, width, B and preserved list: inside stays inside, outside stays outside, last B bits verbatim, leading bits independent of host bits (also for undo); the default list read from the source equals classes A-E + RFC 1918 (decided on the generated constants).",
        note="Trusted: Coq kernel; hand model + correspondence on membership/suffix observations; gen/G_ip_consts.v; option-string parsing by ipaddress not modelled. Axioms: none.",
        technique="Coq proof (pinned-node lemmas over bit strings) + generated constants + membership correspondence",
        ref="DESIGN.md section 6, C04"),
    "C05": dict(
        text="Coq theorem is_mask_spec for all 2^32 values (accepts exactly ones-then-zeros / zeros-then-ones), should_anonymize characterisation on the model, and no-collision: preserved networks are registered as preserved prefixes by the constructor so outside never maps inside, for every salt/B/list.",
        note="Trusted: Coq kernel; hand model of _is_mask/should_anonymize/__init__ tied by correspondence (all 66 masks, all one-bit perturbations, random values; network boundary addresses). Text level: the IPv4 callback returns the matched text itself and leaves the state unchanged for mask-shaped or preserved values (theorem on the model's ip_match). Axioms: none.",
        technique="Coq proof (bit-level characterisation of the mask test; pinned-prefix no-collision) + correspondence",
        ref="DESIGN.md section 6, C05"),
    "C18": dict(
        text="Coq theorems over the tables regenerated from the source: encrypt-then-decrypt is the identity for every plaintext over 0..255 and every salt string (guard: non-empty plaintext or family-0 salt, the guard's necessity proved as a refutation), output well-formed, decrypt fails only with ValueError.",
        note="Trusted: Coq kernel incl. vm_compute for the 7x65x256 sweep; gen/G_juniper.v; hand model tied by correspondence incl. a malformed stream and an independent decoder. Known finding D17 (empty plaintext). Axioms: none.",
        technique="Coq proof (finite per-character sweep lifted to all plaintexts by induction) over generated tables + correspondence",
        ref="DESIGN.md section 6, C18"),

    "C06": dict(
        text="Coq theorems: for every regex of the subset, substitution replaces exactly non-empty, ordered, disjoint spans and every matched character belongs to a consuming class of the pattern; on the IPv4/IPv6 patterns regenerated from the source each run, a match covers only digits and dots / address characters (never whitespace, terminators, other text). The executable model (regex engine on generated ASTs, ipaddress text, memoised mapping) is compared with the real pipeline on template lines and on ALL short strings over a boundary alphabet; an independent token scanner + reference mapping is the oracle.",
        note="IPv4: characterised in both directions as theorems, for every line (model/Ipv4Token.v through lib/RxDen.v / RxLang.v: every span the engine or finditer reports is a standalone dotted quad with parts 0..255, a whole token; every standalone dotted quad is matched, the engine's first choice covers exactly it, finditer reports it; the pass rewrites exactly those spans and copies the rest). IPv6: only the boundary half is a theorem (matches are delimited); which forms its twelve-alternative core accepts is decided by sweep + oracle (known finding D1b lives there). That the matched token then parses (make_addr through the drop-zeros substitution) is not proved. Trusted: Coq kernel incl. vm_compute, rxgen + re._parser (the AST shape is re-checked by computation on every run), hand model tied by correspondence.",
        technique="Coq proof (generic regex span/alphabet theorems + facts decided on regenerated ASTs) + model/implementation correspondence incl. exhaustive short strings",
        ref="DESIGN.md section 6, C06"),
    "C07": dict(
        text="Coq theorem (value level): the pseudonym allocator's outputs are invariant under any injective class-preserving renaming of secrets, over all request histories; all 55+ generated line patterns are non-nullable. The full secrets stage is an executable model over the regenerated regex groups, compared byte-for-byte with the implementation; paired runs differing only in secret values must give identical output and INFO+ logs.",
        note="Partial: recognition of the keyword line forms by the generated regexes is not proved (correspondence + paired-run search); proved on the generated table: every pattern starts with the common look-behind (a secrets match begins at a word boundary), and a standalone $9$ / $1$ hash-shaped token makes its catch-all pattern match on every line (model/HashToken.v). Known findings D11, D12, D19. passlib md5/sha512 are oracles.",
        technique="Coq proof (allocator non-interference by induction over histories) + correspondence + relational (paired-run) search",
        ref="DESIGN.md section 6, C07"),
    "C08": dict(
        text="Coq theorem: over all request histories of the allocator equal secrets get equal replacements and different secrets different ones (given injective per-class encoders); $9$ re-encodings of one plaintext decrypt to the same key (from C18). Model/implementation correspondence on multi-line runs with repeats, quoting variants and $9$ re-encodings; replacements read back by position.",
        note="Encoder injectivity for md5-crypt/sha512-crypt is an oracle assumption. Known finding D13 (two matches of one pattern on one line share a pseudonym).",
        technique="Coq proof (numbered-lookup invariant over histories) + correspondence + equality-pattern search",
        ref="DESIGN.md section 6, C08"),
    "C09": dict(
        text="Coq theorems: the $9$ replacement of every pseudonym under every salt is decryptable (C18); decimal/hex/type-7 encodings have their shape for pseudonym numbers 0..199 (bounded sweep, stated as such); enclosing-text lists read from the source equal the property's. The model re-implements type 7 and is compared byte-for-byte; replacements are decoded with independent decoders over all type-7 salts, md5 salt lengths, 65 $9$ salt characters and enclosing combinations.",
        note="Partial: md5-crypt/sha512-crypt shapes are passlib's (oracle, checked by shape tests); 'context kept' is decided by the positional read-back in the search.",
        technique="Coq proof (codec theorem + bounded encoder sweep on generated constants) + correspondence + independent decoders",
        ref="DESIGN.md section 6, C09"),
    "C10": dict(
        text="Coq theorem (token model): after leftmost-first substitution of a case-insensitive alternation of literal words by six-hex-character pseudonyms no listed good word occurs in the output, for every case folding, pseudonym function and order of the alternation; reserved tokens / reserved secrets are returned unchanged by the model. Correspondence on generated word lists under several hash seeds; case-insensitive search of the output.",
        note="At regex level, for every word list, line and position: a match of the word pattern is a case variant of one listed word, and every occurrence of such a variant makes the pattern match (model/WordToken.v); on a sample list the model's alternation reports what the regenerated AST of the source's pattern reports. Partial: the no-survivor theorem is on the token model of lib/Words.v, tied to model/TextModel.v only through the correspondence with the code. Words with spaces / regex metacharacters / non-ASCII are outside the model (implementation-only search). D15 fixed.",
        technique="Coq proof (no-survivor theorem over token substitution) + correspondence under multiple PYTHONHASHSEEDs",
        ref="DESIGN.md section 6, C10"),
    "C11": dict(
        text="Coq theorem over the boundary table regenerated from the source: for EVERY hash value and every AS number the replacement is in the same block; out-of-range rejected; hash non-negative; run-time pattern non-nullable. Correspondence with the hash value forced at every block boundary; text-level oracle = independent digit-run scanner.",
        note="That matches are exactly the standalone listed numerals is a theorem in both directions, for every list, line and position, up to finditer and the whole pass (model/AsToken.v); the pattern template is the model's as_rx, shown to report what the regenerated AST of the source's pattern reports on one sample list; for other lists the tie text -> AST is the correspondence (digit-run scanner oracle).",
        technique="Coq proof (arithmetic over generated table, all hash values) + forced-hash correspondence + digit-run oracle",
        ref="DESIGN.md section 6, C11"),
    "C12": dict(
        text="Coq theorems on the pipeline model: one output line per input line in order; a prefix of the text is processed independently of what follows (line locality modulo earlier state); an IPv4 match never covers whitespace. Token-level oracle over all 16 feature subsets for edges, terminators, verbatim tokens and whitespace.",
        note="Partial: edge preservation of the secrets/words stages is decided by the oracle. open() newline translation outside the model.",
        technique="Coq proof (structural induction over the line loop; regex alphabet facts) + correspondence + token-level oracle",
        ref="DESIGN.md section 6, C12"),
    "C13": dict(
        text="The model is a function of (salt, options, text) with no seed/clock/global state; the implementation is compared with it byte-for-byte in fresh processes under several hash seeds and after unrelated anonymizers were constructed; sorted word order proved order-independent on a bounded domain; no-salt run reproduces with the reported salt.",
        note="Partial: process-level determinism is runtime behaviour shown by correspondence across processes, the theorem part is bounded. D7-D10 fixed.",
        technique="Coq model without hidden inputs + cross-process / cross-seed correspondence",
        ref="DESIGN.md section 6, C13"),
    "C14": dict(
        text="Coq theorems excluding failure modes: generated patterns non-nullable; $9$ decoder fails only with ValueError and encoder total for every salt; address memo never raises from any reachable state; AS pattern non-nullable. Hostile-line stream on model and implementation: a raise on either side is reported.",
        note="Partial: capture-group participation and passlib totality are not proved. D2-D6 fixed.",
        technique="Coq proof (per-failure-mode lemmas) + hostile-input correspondence/search",
        ref="DESIGN.md section 6, C14"),
    "C15": dict(
        text="Coq theorem: the model's per-line function is the composition of the five stages in the order secrets, IPv6, IPv4, words, AS numbers, and each single-feature anonymizer computes exactly its stage. Combined runs vs chains of single-feature runs on implementation and model for all 16 subsets and undo.",
        note="Constructor wiring in the code is tied by correspondence.",
        technique="Coq proof (unfolding the pipeline into stage composition) + combined-vs-chained correspondence",
        ref="DESIGN.md section 6, C15"),
    "C16": dict(
        text="Coq theorems on the shared-state model: files processed in sequence through one anonymizer = the concatenated text; line counts kept. Real runs of the four entry points on generated trees with a failing file at every position; the model processes the files in walk order.",
        note="Partial: the file system (walk, hidden files, decoding, directories) is runtime behaviour decided by real runs.",
        technique="Coq proof (state threading over concatenated files) + real-filesystem runs of all entry points",
        ref="DESIGN.md section 6, C16"),
    "C17": dict(
        text="Coq theorems for every flip function/width/host bits/preserved list and every request history: the memo is complete (each anonymized address has its full-length entry with the returned answer), sound (each entry is (k, image k)) and duplicate-free from the constructor on. Model dump compared line by line with the real dump; dump checked against pairs read from output files.",
        note="Text forms (print4/print6) are library models tied by correspondence.",
        technique="Coq proof (monotone memo + uniqueness invariant over histories) + dump correspondence",
        ref="DESIGN.md section 6, C17"),
    "C19": dict(
        text="Coq theorems on the model of main over parsed arguments: invalid combinations rejected before any call; nothing enabled => no call; host bits reach both families; --preserve-private-addresses appends exactly RFC 1918; defaults read from the real parser are the documented ones. The real main runs with anonymize_files replaced by a recorder; command-line / config-file / both renderings must agree.",
        note="Partial: argparse/configargparse (precedence, required args, host-bit range) are not modelled, checked on the implementation.",
        technique="Coq proof (decision logic of main) + recorded-call correspondence + argv/config search",
        ref="DESIGN.md section 6, C19"),
}
NA_REASON = "check not built yet in this round (work in progress; see DESIGN.md section 9 for the order of work)"

checks = []
for pid in props:
    if pid in CLAIMED:
        c = CLAIMED[pid]
        checks.append({
            "property_id": pid,
            "quick_cmd": "/venv/bin/python tools/check.py %s --tier quick" % pid,
            "thorough_cmd": "/venv/bin/python tools/check.py %s --tier thorough" % pid,
            "evidence_file": "/verif/evidence/%s.json" % pid,
            "replay_cmd_template": "/venv/bin/python tools/check.py %s --replay {path}" % pid,
            "engine": "coq-proof+correspondence",
            "level_claimed": {"category": "proof", "text": c["text"], "design_ref": c["ref"]},
            "level_note": c["note"],
            "technique": c["technique"],
        })
manifest = {
    "version": 1,
    "setup_cmd": "/venv/bin/python tools/setup.py",
    "hooks": {
        "guard": "NETCONAN_VERIF",
        "enable": "no source hooks are needed: the harness observes netconan from outside (PYTHONPATH=/repo); NETCONAN_VERIF=1 is exported by the checks but read by nothing in /repo",
        "baseline_off_cmd": "cd /repo && /venv/bin/python -m pytest -ra -q -p no:cacheprovider --timeout=900 --continue-on-collection-errors",
        "source_commits": [],
        "add_only": True,
    },
    "engines": [{
        "name": "coq-proof+correspondence", "path": "tools/check.py",
        "serves_properties": sorted(CLAIMED),
        "kind_free_text": "Coq 8.16.1 theorems over an executable Gallina model (coq/lib, coq/model), generated data units (coq/gen, regenerated from /repo on every run), correspondence check model-vs-implementation through OCaml extraction, property-text oracles searching the implementation for a concrete failing input",
    }],
    "checks": checks,
    "not_applicable": [{"property_id": p, "reason": NA_REASON} for p in props if p not in CLAIMED],
    "notes": "See DESIGN.md. Every check rebuilds the generated Coq units and the extracted model from /repo's working tree.",
}
json.dump(manifest, open(os.path.join(VERIF, "MANIFEST.json"), "w"), indent=1)
print("claimed:", sorted(CLAIMED), "n/a:", len(manifest["not_applicable"]))
