#!/usr/bin/env python3
"""Writes /verif/MANIFEST.json from the table below (kept in one place so that it stays valid)."""
import json
import os

VERIF = os.path.dirname(os.path.dirname(os.path.abspath(__file__)))
props = [json.loads(l)["id"] for l in open(os.path.join(VERIF, "properties.jsonl"))]

CLAIMED = {
    "C01": dict(
        text="Coq theorems for every flip function, width, host-bit count and preserved list (common-prefix length preserved, injective, surjective; the memoised code returns the pure mapping on every request history); the executable model is tied to /repo by a differential run against the real classes on every check.",
        note="Trusted: Coq kernel; hand-written model lib/Memo.v + model/IpModel.v tied by the correspondence run (sampled); lib/Md5.v; ipaddress option parsing not modelled. Axioms: none.",
        technique="Coq proof (induction over bit strings and request histories) + model/implementation correspondence via extracted OCaml",
        ref="DESIGN.md section 6, C01"),
    "C02": dict(
        text="Coq theorems: both inverses hold for every flip function/width/host bits/preserved list; a freshly constructed instance satisfies the memo invariant and from any state satisfying it every undo/anonymize request returns the pure pre-image/image without raising. The model is tied to /repo by a differential run in which each side undoes its own images on a cold instance.",
        note="File-level --undo (text) is covered by the text-pipeline checks when built; trusted: Coq kernel, hand model + correspondence (sampled), lib/Md5.v. Axioms: none.",
        technique="Coq proof (inverse lemmas + memo invariant by induction over histories) + per-side cold-undo correspondence",
        ref="DESIGN.md section 6, C02"),
    "C03": dict(
        text="Coq theorem: for every finite request history (any interleaving of anonymize/undo, any repetition) on a fresh or any reachable memo, each answer equals the history-free function; corollary: the same request gets the same answer in any two histories. Correspondence compares, per request, the answer inside a history with the answer of a fresh instance, on both sides.",
        note="Trusted: Coq kernel; hand model lib/Memo.v tied by correspondence; file/run level partitioning is covered through anonymize_files in C16/C17 checks. Axioms: none.",
        technique="Coq proof (invariant of the shared bidict memo, induction over request histories) + history-vs-fresh correspondence",
        ref="DESIGN.md section 6, C03"),
    "C04": dict(
        text="Coq theorems for every flip function, width, B and preserved list: inside stays inside, outside stays outside, last B bits verbatim, leading bits independent of host bits (also for undo); the default list read from the source equals classes A-E + RFC 1918 (decided on the generated constants).",
        note="Trusted: Coq kernel; hand model + correspondence on membership/suffix observations; gen/G_ip_consts.v; option-string parsing by ipaddress not modelled. Axioms: none.",
        technique="Coq proof (pinned-node lemmas over bit strings) + generated constants + membership correspondence",
        ref="DESIGN.md section 6, C04"),
    "C05": dict(
        text="Coq theorem is_mask_spec for all 2^32 values (accepts exactly ones-then-zeros / zeros-then-ones), should_anonymize characterisation on the model, and no-collision: preserved networks are registered as preserved prefixes by the constructor so outside never maps inside, for every salt/B/list.",
        note="Trusted: Coq kernel; hand model of _is_mask/should_anonymize/__init__ tied by correspondence (all 66 masks, all one-bit perturbations, random values; network boundary addresses). Text-level 'appear exactly as written' is covered with the text pipeline (C06/C12). Axioms: none.",
        technique="Coq proof (bit-level characterisation of the mask test; pinned-prefix no-collision) + correspondence",
        ref="DESIGN.md section 6, C05"),
    "C18": dict(
        text="Coq theorems over the tables regenerated from the source: encrypt-then-decrypt is the identity for every plaintext over 0..255 and every salt string (guard: non-empty plaintext or family-0 salt, the guard's necessity proved as a refutation), output well-formed, decrypt fails only with ValueError.",
        note="Trusted: Coq kernel incl. vm_compute for the 7x65x256 sweep; gen/G_juniper.v; hand model tied by correspondence incl. a malformed stream and an independent decoder. Known finding D17 (empty plaintext). Axioms: none.",
        technique="Coq proof (finite per-character sweep lifted to all plaintexts by induction) over generated tables + correspondence",
        ref="DESIGN.md section 6, C18"),
}
NA_REASON = "check not built yet in this round (work in progress; see DESIGN.md section 9 for the order of work)"

checks = []
for pid in props:
    if pid in CLAIMED:
        c = CLAIMED[pid]
        checks.append({
            "property_id": pid,
            "quick_cmd": "/venv/bin/python tools/check.py %s --tier quick" % pid,
            "thorough_cmd": "/venv/bin/python tools/check.py %s --tier thorough" % pid,
            "evidence_file": "/verif/evidence/%s.json" % pid,
            "replay_cmd_template": "/venv/bin/python tools/check.py %s --replay {path}" % pid,
            "engine": "coq-proof+correspondence",
            "level_claimed": {"category": "proof", "text": c["text"], "design_ref": c["ref"]},
            "level_note": c["note"],
            "technique": c["technique"],
        })
manifest = {
    "version": 1,
    "setup_cmd": "/venv/bin/python tools/setup.py",
    "hooks": {
        "guard": "NETCONAN_VERIF",
        "enable": "no source hooks are needed: the harness observes netconan from outside (PYTHONPATH=/repo); NETCONAN_VERIF=1 is exported by the checks but read by nothing in /repo",
        "baseline_off_cmd": "cd /repo && /venv/bin/python -m pytest -ra -q -p no:cacheprovider --timeout=900 --continue-on-collection-errors",
        "source_commits": [],
        "add_only": True,
    },
    "engines": [{
        "name": "coq-proof+correspondence", "path": "tools/check.py",
        "serves_properties": sorted(CLAIMED),
        "kind_free_text": "Coq 8.16.1 theorems over an executable Gallina model (coq/lib, coq/model), generated data units (coq/gen, regenerated from /repo on every run), correspondence check model-vs-implementation through OCaml extraction, property-text oracles searching the implementation for a concrete failing input",
    }],
    "checks": checks,
    "not_applicable": [{"property_id": p, "reason": NA_REASON} for p in props if p not in CLAIMED],
    "notes": "See DESIGN.md. Every check rebuilds the generated Coq units and the extracted model from /repo's working tree.",
}
json.dump(manifest, open(os.path.join(VERIF, "MANIFEST.json"), "w"), indent=1)
print("claimed:", sorted(CLAIMED), "n/a:", len(manifest["not_applicable"]))
