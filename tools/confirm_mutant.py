#!/usr/bin/env python3
"""confirm_mutant.py <dir with patch.diff, demo.py, meta.json> <seeded-name>
Confirms in a fresh scratch worktree of /repo: patch applies, full test suite passes with it, demo fails with it and passes without.
On success copies the three files to /verif/seeded/<seeded-name>/ (meta.json extended with what was run). Removes the worktree."""
import json
import os
import shutil
import subprocess
import sys

src, name = sys.argv[1], sys.argv[2]
wt = "/tmp/confirm_%s" % name
subprocess.run(["git", "-C", "/repo", "worktree", "remove", "--force", wt], capture_output=True)
subprocess.run(["git", "-C", "/repo", "worktree", "add", "-q", "--detach", wt, "HEAD"], check=True)
env = dict(os.environ, PYTHONPATH=wt, PYTHONHASHSEED="0")
ran = []
ok = False
try:
    def run(cmd, **kw):
        p = subprocess.run(cmd, cwd=wt, env=env, capture_output=True, text=True, **kw)
        return p.returncode, (p.stdout + p.stderr)[-600:]
    rc, out = run(["/venv/bin/python", os.path.join(src, "demo.py")])
    ran.append("demo on unchanged tree: exit %d" % rc)
    base_ok = rc == 0
    rc, out = run(["git", "apply", os.path.join(src, "patch.diff")])
    if rc != 0:
        rc, out = run(["git", "apply", "--3way", os.path.join(src, "patch.diff")])
    ran.append("git apply: exit %d %s" % (rc, out.strip()[:200]))
    applied = rc == 0
    if applied:
        rc, out = run(["/venv/bin/python", "-m", "pytest", "-q", "-p", "no:cacheprovider", "-x"])
        tests_ok = rc == 0
        ran.append("pytest with the change: exit %d (%s)" % (rc, out.strip().split("\n")[-1][:100]))
        rc, out = run(["/venv/bin/python", os.path.join(src, "demo.py")])
        ran.append("demo with the change: exit %d (%s)" % (rc, out.strip().split("\n")[-1][:200]))
        demo_fails = rc != 0
        ok = base_ok and tests_ok and demo_fails
    print("\n".join(ran))
    if ok:
        dst = os.path.join("/verif/seeded", name)
        os.makedirs(dst, exist_ok=True)
        # store the patch relative to the CURRENT /repo HEAD
        diff = subprocess.run(["git", "diff", "HEAD", "--", "netconan"], cwd=wt, capture_output=True, text=True).stdout
        open(os.path.join(dst, "patch.diff"), "w").write(diff)
        shutil.copy(os.path.join(src, "demo.py"), dst)
        meta = json.load(open(os.path.join(src, "meta.json")))
        meta["confirmed"] = ran
        meta["repo_head"] = subprocess.run(["git", "-C", "/repo", "rev-parse", "--short", "HEAD"], capture_output=True, text=True).stdout.strip()
        json.dump(meta, open(os.path.join(dst, "meta.json"), "w"), indent=1)
        print("CONFIRMED ->", dst)
    else:
        print("NOT CONFIRMED")
finally:
    subprocess.run(["git", "-C", "/repo", "worktree", "remove", "--force", wt], capture_output=True)
sys.exit(0 if ok else 1)
