#!/usr/bin/env python3
"""try_patch.py <patch.diff> [C01 C02 ...]  -- apply a seeded change to /repo, run the quick checks, ALWAYS revert."""
import subprocess
import sys
import json
import os

patch = os.path.abspath(sys.argv[1])
props = sys.argv[2:] or [json.loads(l)["property_id"] for l in []]
if not props:
    props = [c["property_id"] for c in json.load(open("/verif/MANIFEST.json"))["checks"]]
assert subprocess.run(["git", "-C", "/repo", "status", "--porcelain", "--untracked-files=no"], capture_output=True, text=True).stdout.strip() == "", "repo dirty"
subprocess.run(["git", "-C", "/repo", "apply", patch], check=True)
res = {}
try:
    for p in props:
        r = subprocess.run(["/venv/bin/python", "/verif/tools/check.py", p, "--tier", os.environ.get("TIER", "quick")], capture_output=True, text=True, cwd="/verif")
        lines = [l for l in r.stdout.split("\n") if l.startswith(("VIOLATION", "OK ", "KNOWN"))]
        res[p] = (r.returncode, lines[-1] if lines else (r.stdout + r.stderr)[-300:])
        print(p, r.returncode, res[p][1], flush=True)
finally:
    subprocess.run(["git", "-C", "/repo", "checkout", "--", "."], check=True)
    subprocess.run(["git", "-C", "/repo", "clean", "-fdq", "--", "netconan", "tests"], check=False)
