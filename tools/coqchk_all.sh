#!/bin/bash
# Re-check every compiled props file (and everything it loads) with the independent checker coqchk and list the axioms they rely on.
# Not part of a registered command (takes the better part of an hour); the last output is kept in coqchk/REPORT.txt.
cd "$(dirname "$0")/../coq"
mkdir -p ../coqchk
mods=""
for f in props/C*.v; do b=$(basename $f .v); [ -f props/$b.vo ] && mods="$mods NV.props.$b"; done
( date; echo "coqchk -silent -o -R . NV $mods"; time coqchk -silent -o -R . NV $mods ) > ../coqchk/REPORT.txt 2>&1
tail -20 ../coqchk/REPORT.txt
