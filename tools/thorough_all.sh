#!/bin/bash
# every thorough check on the unchanged tree, one after the other; prints verdict lines and wall time
cd "$(dirname "$0")/.."
/venv/bin/python tools/setup.py >/dev/null 2>&1
for i in 01 02 03 04 05 06 07 08 09 10 11 12 13 14 15 16 17 18 19; do
  s=$(date +%s)
  /venv/bin/python tools/check.py C$i --tier thorough 2>&1 | grep "^OK \|^VIOL\|^KNOWN" | cut -c1-160
  echo "   C$i thorough wall $(( $(date +%s) - s ))s"
done
