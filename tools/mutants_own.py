#!/usr/bin/env python3
"""mutants_own.py [names...]: for each seeded change apply it to /repo, run the check of the property it targets
(and the extra ones given in EXTRA), revert.  Appends to seeded/RESULTS.jsonl."""
import json
import os
import subprocess
import sys
import time

EXTRA = {"C04_m2": ["C19", "C06"], "C02_m2": ["C19"], "C13_m2": ["C18", "C14"], "C14_m1": ["C18"], "C15_m1": ["C10"], "C12_m1": ["C14", "C09"], "C12_m2": ["C05", "C06"]}
names = sys.argv[1:] or sorted(d for d in os.listdir("/verif/seeded") if os.path.isdir(os.path.join("/verif/seeded", d)))
assert subprocess.run(["git", "-C", "/repo", "status", "--porcelain", "--untracked-files=no"], capture_output=True, text=True).stdout.strip() == "", "repo dirty"
out = open("/verif/seeded/RESULTS.jsonl", "a")
for name in names:
    meta = json.load(open("/verif/seeded/%s/meta.json" % name)) if os.path.exists("/verif/seeded/%s/meta.json" % name) else {}
    prop = meta.get("property") or {"m_design_A": "C02", "m_design_B": "C04"}[name]
    r = subprocess.run(["git", "-C", "/repo", "apply", "/verif/seeded/%s/patch.diff" % name], capture_output=True, text=True)
    if r.returncode != 0:
        print(name, "PATCH-FAILED", r.stderr[:200], flush=True)
        continue
    try:
        for p in [prop] + EXTRA.get(name, []):
            t = time.time()
            r = subprocess.run(["/venv/bin/python", "/verif/tools/check.py", p], capture_output=True, text=True, cwd="/verif")
            lines = [l for l in r.stdout.split("\n") if l.startswith(("VIOLATION", "OK "))]
            res = {"mutant": name, "targets": prop, "check": p, "exit": r.returncode, "line": (lines[-1] if lines else (r.stdout + r.stderr)[-200:])[:200], "wall": round(time.time() - t, 1)}
            if r.returncode == 1:
                try:
                    rp = json.load(open(lines[-1].split("replay=")[1].split()[0]))
                    v = rp["violations"][0]
                    res["kind"] = v.get("kind")
                    res["what"] = str(v.get("what"))[:200]
                except Exception:
                    pass
            out.write(json.dumps(res) + "\n")
            out.flush()
            print(name, p, r.returncode, res.get("kind", ""), res.get("what", "")[:100], flush=True)
    finally:
        subprocess.run(["git", "-C", "/repo", "checkout", "--", "."])
