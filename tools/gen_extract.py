#!/venv/bin/python
"""Child of gen.py: imports the REAL netconan from /repo and dumps the data the Coq model is generated from.
Each unit is extracted independently; a failing unit is reported as {"error": ...} (fail-closed per unit)."""
import json
import sys
import traceback

sys.path.insert(0, sys.argv[1] if len(sys.argv) > 1 else "/repo")
units = {}


def unit(name):
    def deco(fn):
        try:
            units[name] = {"ok": fn()}
        except Exception as e:  # noqa
            units[name] = {"error": "%s: %s" % (type(e).__name__, e), "tb": traceback.format_exc()[-1500:]}
        return fn
    return deco


@unit("ip_consts")
def _ip_consts():
    import ipaddress
    from netconan.ip_anonymization import IpAnonymizer

    def nets(l):
        out = []
        for s in l:
            n = ipaddress.ip_network(s)
            assert n.version == 4
            out.append([int(n.network_address), n.prefixlen])
        return out

    return {
        "IPV4_CLASSES": nets(IpAnonymizer.IPV4_CLASSES),
        "RFC_1918_NETWORKS": nets(IpAnonymizer.RFC_1918_NETWORKS),
        "DEFAULT_PRESERVED_PREFIXES": nets(IpAnonymizer.DEFAULT_PRESERVED_PREFIXES),
    }


@unit("juniper")
def _juniper():
    from netconan.utils import juniper_secrets as js

    return {
        "MAGIC": [ord(c) for c in js.MAGIC],
        "FAMILY": [[ord(c) for c in f] for f in js.FAMILY],
        "NUM_ALPHA": [ord(c) for c in js.NUM_ALPHA],
        "ALPHA_NUM": [[ord(k), v] for k, v in js.ALPHA_NUM.items()],
        "EXTRA": [[ord(k), v] for k, v in js.EXTRA.items()],
        "ENCODING": js.ENCODING,
        "FIXEDC": [[ord(c) for c in js._fixedc(i)] for i in range(5)],
        "VALID": js.VALID,
    }


json.dump(units, sys.stdout)
