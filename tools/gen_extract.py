#!/venv/bin/python
"""Child of gen.py: imports the REAL netconan from /repo and dumps the data the Coq model is generated from.
Each unit is extracted independently; a failing unit is reported as {"error": ...} (fail-closed per unit)."""
import json
import sys
import traceback

sys.path.insert(0, sys.argv[1] if len(sys.argv) > 1 else "/repo")
units = {}


def unit(name):
    def deco(fn):
        try:
            units[name] = {"ok": fn()}
        except Exception as e:  # noqa
            units[name] = {"error": "%s: %s" % (type(e).__name__, e), "tb": traceback.format_exc()[-1500:]}
        return fn
    return deco


@unit("ip_consts")
def _ip_consts():
    import ipaddress
    from netconan.ip_anonymization import IpAnonymizer

    def nets(l):
        out = []
        for s in l:
            n = ipaddress.ip_network(s)
            assert n.version == 4
            out.append([int(n.network_address), n.prefixlen])
        return out

    return {
        "IPV4_CLASSES": nets(IpAnonymizer.IPV4_CLASSES),
        "RFC_1918_NETWORKS": nets(IpAnonymizer.RFC_1918_NETWORKS),
        "DEFAULT_PRESERVED_PREFIXES": nets(IpAnonymizer.DEFAULT_PRESERVED_PREFIXES),
    }


@unit("fn_ip")
def _fn_ip():
    import os

    sys.path.insert(0, os.path.dirname(os.path.abspath(__file__)))
    import translate
    import netconan.ip_anonymization as pm

    text, done, failed = translate.translate_module(pm.__file__, pm)
    need = ["_BaseIpAnonymizer.__init__", "_BaseIpAnonymizer.anonymize", "_BaseIpAnonymizer._anonymize_bits", "_BaseIpAnonymizer.deanonymize", "_BaseIpAnonymizer._deanonymize_bits"]
    # functions that need bindings this translator does not have (regex, ipaddress text, md5) are expected to be refused; the bit-walk family is not
    return {"coq": text, "translated": done, "refused": failed, "missing_core": [n for n in need if n not in done]}


@unit("fn_jun")
def _fn_jun():
    import os

    sys.path.insert(0, os.path.dirname(os.path.abspath(__file__)))
    import translate
    import netconan.utils.juniper_secrets as pm

    text, done, failed = translate.translate_module(pm.__file__, pm)
    return {"coq": text, "translated": done, "refused": failed}


@unit("fn_sir")
def _fn_sir():
    import os

    sys.path.insert(0, os.path.dirname(os.path.abspath(__file__)))
    import translate
    import netconan.sensitive_item_removal as pm

    text, done, failed = translate.translate_module(pm.__file__, pm, wanted=["_check_sensitive_item_format", "_generate_as_number_replacement", "_extract_enclosing_text"])
    return {"coq": text, "translated": done, "refused": failed}


@unit("fn_sir2")
def _fn_sir2():
    """functions of sensitive_item_removal.py that only the function-level tie (coq/refine, props/CnnG.v) speaks about; kept out of G_fn_sir.v,
    which the text model itself is built on"""
    import os

    sys.path.insert(0, os.path.dirname(os.path.abspath(__file__)))
    import translate
    import netconan.sensitive_item_removal as pm
    import netconan.utils.juniper_secrets as js

    text, done, failed = translate.translate_module(
        pm.__file__, pm, wanted=["_get_or_generate_sensitive_word_replacement", "_anonymize_value", "_extract_enclosing_text", "_check_sensitive_item_format",
                                 "replace_matching_item", "_split_line", "anonymize_as_numbers", ("AsNumberAnonymizer", "anonymize"), ("AsNumberAnonymizer", "get_as_number_pattern"),
                                 ("SensitiveWordAnonymizer", "anonymize"), "_lookup_anon_word"],
        oracles=("cisco_type7", "md5_crypt", "sha512_crypt"), xmods={"juniper_secrets": (js, "G_fn_jun")},
        external=("_extract_enclosing_text", "_check_sensitive_item_format"), requires=("G_fn_sir",),
        method_oracles=("search", "sub", "group", "groupdict"),      # methods of compiled patterns / match objects: answered by the py_call parameter
        param_classes={"anonymize_as_numbers": {"anonymizer": "AsNumberAnonymizer"}}, sub_callbacks=True)
    return {"coq": text, "translated": done, "refused": failed}


@unit("fn_ip2")
def _fn_ip2():
    """_anonymize_match and anonymize_ip_addr: the text-level glue of the IP stage.  The anonymizer's methods are uninterpreted here (they are refined
    in their own right in G_fn_ip.v / refine/Ref{Anon,Deanon,Should,Mask}.v): answered by the py_call parameter, anonymize/deanonymize with the updated object"""
    import os

    sys.path.insert(0, os.path.dirname(os.path.abspath(__file__)))
    import translate
    import netconan.ip_anonymization as pm

    text, done, failed = translate.translate_module(
        pm.__file__, pm, wanted=["_anonymize_match", "anonymize_ip_addr"],
        method_oracles=("make_addr", "should_anonymize", "make_addr_from_int", "get_addr_pattern", "group"),
        method_thread_oracles=("anonymize", "deanonymize"), sub_callbacks=True)
    return {"coq": text, "translated": done, "refused": failed}


@unit("fn_ip3")
def _fn_ip3():
    """dump_to_file and _ip_to_str: what --dump-ip-map writes for one anonymizer.  The subclass's make_addr_from_int is uninterpreted (the py_call
    parameter answers it); the file object is the list of strings written to it"""
    import os

    sys.path.insert(0, os.path.dirname(os.path.abspath(__file__)))
    import translate
    import netconan.ip_anonymization as pm

    text, done, failed = translate.translate_module(
        pm.__file__, pm, wanted=["dump_to_file", "_ip_to_str"], method_oracles=("make_addr_from_int",), io_lists=True)
    return {"coq": text, "translated": done, "refused": failed}


@unit("fn_files")
def _fn_files():
    """FileAnonymizer.anonymize_io: the loop over the lines and the order of the five stages.  The secrets stage is the generated replace_matching_item;
    the other stages (functions with regex callbacks) are uninterpreted and answer (line, updated object); file objects are lists of strings"""
    import os

    sys.path.insert(0, os.path.dirname(os.path.abspath(__file__)))
    import translate
    import netconan.anonymize_files as pm
    import netconan.sensitive_item_removal as sir

    text, done, failed = translate.translate_module(
        pm.__file__, pm, wanted=["anonymize_io"], xfuncs={"replace_matching_item": (sir, "G_fn_sir2")},
        thread_oracles={"anonymize_ip_addr": 0, "anonymize_as_numbers": 0}, method_thread_oracles=("anonymize",), io_lists=True)
    return {"coq": text, "translated": done, "refused": failed}


@unit("fn_sir3")
def _fn_sir3():
    """AsNumberAnonymizer.__init__ with _generate_as_number_regex and _generate_as_number_replacement_map: the pattern text handed to re.compile
    (uninterpreted) and the replacement map, built by the translated _generate_as_number_replacement"""
    import os

    sys.path.insert(0, os.path.dirname(os.path.abspath(__file__)))
    import translate
    import netconan.sensitive_item_removal as pm

    text, done, failed = translate.translate_module(
        pm.__file__, pm, wanted=[("AsNumberAnonymizer", "__init__"), ("AsNumberAnonymizer", "_generate_as_number_regex"),
                                 ("AsNumberAnonymizer", "_generate_as_number_replacement_map"), ("AsNumberAnonymizer", "_generate_as_number_replacement")],
        oracles=("re.compile",), external=("_generate_as_number_replacement",), requires=("G_fn_sir",))
    return {"coq": text, "translated": done, "refused": failed}


@unit("fn_sir4")
def _fn_sir4():
    """SensitiveWordAnonymizer.__init__ with _generate_sensitive_word_regex and _generate_conflicting_reserved_word_list.  re.compile is uninterpreted;
    a set is the list of its elements without repetitions (first occurrence kept), in the order they were added"""
    import os

    sys.path.insert(0, os.path.dirname(os.path.abspath(__file__)))
    import translate
    import netconan.sensitive_item_removal as pm

    text, done, failed = translate.translate_module(
        pm.__file__, pm, wanted=[("SensitiveWordAnonymizer", "__init__"), ("SensitiveWordAnonymizer", "_generate_sensitive_word_regex"),
                                 ("SensitiveWordAnonymizer", "_generate_conflicting_reserved_word_list")],
        oracles=("re.compile",), sets_as_lists=True, sets_dedup=True)
    return {"coq": text, "translated": done, "refused": failed}


@unit("fn_files3")
def _fn_files3():
    """FileAnonymizer.__init__: which anonymizers a set of options switches on and what each is given.  The constructors of the four anonymizer
    classes, generate_default_sensitive_item_regexes, random.choice and the module-level reserved-word set are uninterpreted (calls of the py_call
    parameter); a set is represented by a list of its elements (only membership is asked of the reserved words afterwards)"""
    import os

    sys.path.insert(0, os.path.dirname(os.path.abspath(__file__)))
    import translate
    import netconan.anonymize_files as pm

    text, done, failed = translate.translate_module(
        pm.__file__, pm, wanted=[("FileAnonymizer", "__init__")],
        oracles=("generate_default_sensitive_item_regexes", "SensitiveWordAnonymizer", "IpAnonymizer", "IpV6Anonymizer", "AsNumberAnonymizer", "random.choice"),
        global_oracles=("default_reserved_words",), sets_as_lists=True)
    return {"coq": text, "translated": done, "refused": failed}


@unit("fn_files2")
def _fn_files2():
    """FileAnonymizer.anonymize_io once more, this time calling the GENERATED stage functions (G_fn_sir2, G_fn_ip2) instead of leaving the stages
    uninterpreted: the whole per-line pipeline as translated code (refine/RefPipeline.v)"""
    import os

    sys.path.insert(0, os.path.dirname(os.path.abspath(__file__)))
    import translate
    import netconan.anonymize_files as pm
    import netconan.sensitive_item_removal as sir
    import netconan.ip_anonymization as ipa

    text, done, failed = translate.translate_module(
        pm.__file__, pm, wanted=["anonymize_io"],
        xfuncs={"replace_matching_item": (sir, "G_fn_sir2"), "anonymize_as_numbers": (sir, "G_fn_sir2"), "anonymize_ip_addr": (ipa, "G_fn_ip2", {"method_thread_oracles": ("anonymize", "deanonymize")})},
        field_classes={"anonymizer_sensitive_word": ("SensitiveWordAnonymizer", sir, "G_fn_sir2")}, io_lists=True)
    return {"coq": text.replace("gen_FileAnonymizer__anonymize_io", "gen_FileAnonymizer__anonymize_io_all"), "translated": done, "refused": failed}


@unit("fn_cli")
def _fn_cli():
    import os

    sys.path.insert(0, os.path.dirname(os.path.abspath(__file__)))
    import translate
    import netconan.netconan as pm

    # the argument parser and anonymize_files are left uninterpreted (calls of the py_call parameter)
    text, done, failed = translate.translate_module(pm.__file__, pm, wanted=["main"], oracles=("_parse_args", "anonymize_files"))
    return {"coq": text, "translated": done, "refused": failed}


@unit("cli_consts")
def _cli_consts():
    from netconan import netconan as nn
    from netconan.ip_anonymization import IpAnonymizer

    a = nn._parse_args(["-i", "x", "-o", "y"])
    assert isinstance(a.preserve_host_bits, int) and isinstance(a.preserve_prefixes, str)

    def s(x):
        return [ord(c) for c in x]

    return {
        "CLI_DEFAULT_HOST_BITS": a.preserve_host_bits,
        "CLI_DEFAULT_PREFIXES": s(a.preserve_prefixes),
        "CLI_DEFAULTS_NONE": all(getattr(a, k) is None for k in ("salt", "dump_ip_map", "as_numbers", "reserved_words", "sensitive_words", "preserve_addresses")),
        "CLI_DEFAULTS_FALSE": all(getattr(a, k) is False for k in ("anonymize_ips", "anonymize_passwords", "undo", "preserve_private_addresses")),
        "RFC_1918_TXT": [s(x) for x in IpAnonymizer.RFC_1918_NETWORKS],
        "DEFAULT_PREFIXES_TXT": [s(x) for x in IpAnonymizer.DEFAULT_PRESERVED_PREFIXES],
    }


@unit("as_num")
def _as_num():
    from netconan.sensitive_item_removal import AsNumberAnonymizer

    b = list(AsNumberAnonymizer._AS_NUM_BOUNDARIES)
    assert all(isinstance(x, int) for x in b)
    return {"AS_NUM_BOUNDARIES": b}


@unit("juniper")
def _juniper():
    from netconan.utils import juniper_secrets as js

    return {
        "MAGIC": [ord(c) for c in js.MAGIC],
        "FAMILY": [[ord(c) for c in f] for f in js.FAMILY],
        "NUM_ALPHA": [ord(c) for c in js.NUM_ALPHA],
        "ALPHA_NUM": [[ord(k), v] for k, v in js.ALPHA_NUM.items()],
        "EXTRA": [[ord(k), v] for k, v in js.EXTRA.items()],
        "ENCODING": js.ENCODING,
        "FIXEDC": [[ord(c) for c in js._fixedc(i)] for i in range(5)],
        "VALID": js.VALID,
    }


@unit("rx")
def _rx():
    import ast
    import inspect
    import os

    sys.path.insert(0, os.path.dirname(os.path.abspath(__file__)))
    import rxgen
    from netconan import ip_anonymization as ipa
    from netconan import sensitive_item_removal as sir
    from netconan.utils import juniper_secrets as js

    E = rxgen.Emitter()
    out = []

    def one(name, pat, flags=0):
        t, ngroups, gidx = E.pattern(pat, flags)
        out.append("Definition %s : re := %s." % (name, t))
        return gidx

    one("IPV4_RX", ipa.IPv4_PATTERN.pattern, ipa.IPv4_PATTERN.flags)
    one("IPV6_RX", ipa.IPv6_PATTERN.pattern, ipa.IPv6_PATTERN.flags)
    one("DROP_ZEROS_RX", ipa.IpAnonymizer._DROP_ZEROS_PATTERN.pattern, ipa.IpAnonymizer._DROP_ZEROS_PATTERN.flags)
    one("JUNIPER_VALID_RX", js.VALID, 0)
    # the ordered list of sensitive-line regex groups: (regex, secret group index or None, index of the named group "prefix" or None)
    groups = sir.generate_default_sensitive_item_regexes()
    gl = []
    for gi, grp in enumerate(groups):
        items = []
        for ri, (cre, num) in enumerate(grp):
            nm = "PWD_RX_%d_%d" % (gi, ri)
            one(nm, cre.pattern, cre.flags)
            pidx = cre.groupindex.get("prefix")
            assert num is None or (isinstance(num, int) and 0 <= num <= cre.groups)
            items.append("(%s, %s, %s)" % (nm, "None" if num is None else "Some %d%%nat" % num, "None" if pidx is None else "Some %d%%nat" % pidx))
        gl.append("[" + "; ".join(items) + "]")
    out.append("Definition PWD_REGEXES : list (list (re * option nat * option nat)) := [%s]." % ";\n  ".join(gl))
    # _check_sensitive_item_format itself is translated by the function translator (unit fn_sir); only the enum values are data
    out.append("Definition FORMAT_ENUM : list (N * N) := [%s]. (* index in (cisco_type7, numeric, hexadecimal, md5, text, sha512, juniper_type9) -> value *)" % "; ".join(
        "(%d%%N, %d%%N)" % (i, sir._sensitive_item_formats[n].value) for i, n in enumerate(["cisco_type7", "numeric", "hexadecimal", "md5", "text", "sha512", "juniper_type9"])))
    # run-time built patterns on sample lists: the model's own builders are checked against these
    a = sir.AsNumberAnonymizer(["12", "345", "12345"], "s")
    one("AS_SAMPLE_RX", a.as_num_regex.pattern, a.as_num_regex.flags)
    w = sir.SensitiveWordAnonymizer(["ab", "Cde", "k-s_9"], "s", [])
    one("WORD_SAMPLE_RX", w.sens_regex.pattern, w.sens_regex.flags)
    out.append("Definition WORD_SAMPLE_PATTERN : list N := [%s]." % "; ".join("%d%%N" % ord(c) for c in w.sens_regex.pattern))
    # case-insensitive equivalents of every printable ASCII character, as ranges
    ic = []
    for c in range(32, 127):
        rs = rxgen.norm([(x, x) for x in rxgen.icase_set(c)])
        ic.append("(%d%%N, [%s])" % (c, "; ".join("(%d%%N, %d%%N)" % r for r in rs)))
    out.append("Definition ICASE_ASCII : list (N * list (N * N)) := [%s]." % "; ".join(ic))
    cats = rxgen.categories()
    out.append("Definition CS_SPACE : list (N * N) := [%s]." % "; ".join("(%d%%N, %d%%N)" % r for r in cats["space"]))
    out.append("Definition CS_NOT_DIGIT : list (N * N) := [%s]." % "; ".join("(%d%%N, %d%%N)" % r for r in rxgen.complement(cats["digit"])))
    return {"coq": E.set_defs() + "\n".join(out) + "\n"}


@unit("text_consts")
def _text_consts():
    from netconan import sensitive_item_removal as sir
    from netconan import anonymize_files as af
    from netconan.default_reserved_words import default_reserved_words

    def s(x):
        return [ord(c) for c in x]

    return {
        "LINE_SCRUBBED_MESSAGE": s(sir._LINE_SCRUBBED_MESSAGE),
        "ENCLOSING_HEAD": [s(x) for x in sir._PASSWORD_ENCLOSING_HEAD_TEXT],
        "ENCLOSING_TAIL": [s(x) for x in sir._PASSWORD_ENCLOSING_TAIL_TEXT],
        "ANON_SENSITIVE_WORD_LEN": sir._ANON_SENSITIVE_WORD_LEN,
        "RESERVED_WORDS": sorted(s(x) for x in default_reserved_words),
        "DEFAULT_SALT_LENGTH": af._DEFAULT_SALT_LENGTH,
        "CHAR_CHOICES": s(af._CHAR_CHOICES),
    }


json.dump(units, sys.stdout)
