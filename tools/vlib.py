"""Common machinery for the netconan checks: build, model/implementation runners, evidence, verdicts."""
import fcntl
import hashlib
import json
import os
import random
import re
import subprocess
import sys
import time

VERIF = os.path.dirname(os.path.dirname(os.path.abspath(__file__)))
REPO = os.environ.get("NETCONAN_REPO", "/repo")
COQ = os.path.join(VERIF, "coq")
OCAML = os.path.join(VERIF, "ocaml")
PY = "/venv/bin/python"
OUT = os.path.join(VERIF, "out")
EVID = os.path.join(VERIF, "evidence")
COQC_TIMEOUT = 600


def sh(cmd, timeout=None, cwd=None, env=None, input=None):
    e = dict(os.environ)
    e.update({"PYTHONPATH": REPO, "PYTHONHASHSEED": "0", "NETCONAN_VERIF": "1", "NETCONAN_REPO": REPO})
    if env:
        e.update(env)
    try:
        p = subprocess.run(
            cmd, shell=isinstance(cmd, str), cwd=cwd, env=e, input=input,
            capture_output=True, text=True, timeout=timeout,
        )
        return p.returncode, p.stdout, p.stderr
    except subprocess.TimeoutExpired as ex:
        return 124, (ex.stdout or b"").decode("utf8", "replace") if isinstance(ex.stdout, bytes) else (ex.stdout or ""), "TIMEOUT after %ss" % timeout


# ----------------------------------------------------------------------------- build
class Lock:
    def __init__(self, name="build"):
        os.makedirs(OUT, exist_ok=True)
        self.path = os.path.join(OUT, name + ".lock")

    def __enter__(self):
        self.f = open(self.path, "w")
        fcntl.flock(self.f, fcntl.LOCK_EX)
        return self

    def __exit__(self, *a):
        fcntl.flock(self.f, fcntl.LOCK_UN)
        self.f.close()


def coq_files():
    """All .v files listed in _CoqProject (props/ are compiled per check, not listed)."""
    res = []
    for l in open(os.path.join(COQ, "_CoqProject")):
        l = l.strip()
        if l.endswith(".v"):
            res.append(l)
    return res


def prop_targets(prop_id):
    """the .vo files coq/props/<id>.v imports directly (coqdep), plus the extraction: what a check of that property needs built"""
    rc, so, se = sh(["coqdep", "-R", ".", "NV", "props/%s.v" % prop_id], cwd=COQ, timeout=120)
    deps = []
    for line in so.split("\n"):
        if line.startswith("props/%s.vo" % prop_id):
            deps = [w for w in line.split(":", 1)[1].split() if w.endswith(".vo")]
    return sorted(set(deps + ["model/Extract.vo"]))


def build(log=None, prop_id=None):
    """Regenerate coq/gen from /repo's working tree, rebuild every .vo that is out of date (make -k),
    re-extract and recompile the OCaml driver.  Returns {"gen": {...}, "failed": [files], "log": str}."""
    t0 = time.time()
    with Lock("build"):
        rc, so, se = sh([PY, os.path.join(VERIF, "tools", "gen.py")], timeout=600)
        gen_report = {}
        try:
            gen_report = json.loads(so.strip().split("\n")[-1])
        except Exception:
            gen_report = {"error": "gen.py failed: rc=%s %s %s" % (rc, so[-2000:], se[-2000:])}
        if not os.path.exists(os.path.join(COQ, "Makefile")):
            sh("coq_makefile -f _CoqProject -o Makefile", cwd=COQ, timeout=120)
        adv_id = prop_id + "G" if prop_id and os.path.exists(os.path.join(COQ, "props", prop_id + "G.v")) else None
        adv_targets = [t for t in prop_targets(adv_id) if t != "model/Extract.vo"] if adv_id else []
        targets = " ".join(sorted(set(prop_targets(prop_id) + adv_targets))) if prop_id else ""
        rc, so, se = sh("make -k -j%d %s 2>&1" % (min(16, os.cpu_count() or 4), targets), cwd=COQ, timeout=3000)
        mlog = so + se
        # what is still out of date after `make -k` did not build (the file itself failed, or something it depends on did)
        rc_n, so_n, se_n = sh("make -n -k %s 2>&1" % targets, cwd=COQ, timeout=600)
        failed = sorted(set(re.findall(r'COQC (\S+\.v)', so_n)) | set(f for f in coq_files() if not os.path.exists(os.path.join(COQ, f))))
        failed_props = failed_model = failed
        failed_advisory = []
        if prop_id:        # only what this property needs counts: the files its theorems depend on, and the files the executable model depends on
            def closure(tg):
                rc_d, so_d, _ = sh("make -n -B -k %s 2>&1" % " ".join(tg), cwd=COQ, timeout=600)
                return set(re.findall(r'COQC (\S+\.v)', so_d))
            tp = [t for t in prop_targets(prop_id) if t != "model/Extract.vo"]
            failed_props = [f for f in failed if f in closure(tp)]
            failed_model = [f for f in failed if f in closure(["model/Extract.vo"])]
            # the function-level refinement theorems (props/<id>G.v) are a second, stronger tie: what fails only there is reported apart
            failed_advisory = [f for f in failed if f in closure(adv_targets) and f not in failed_props and f not in failed_model] if adv_targets else []
            failed = sorted(set(failed_props) | set(failed_model))
        # extraction output lands in coq/ (cwd of coqc); move and compile if newer than the driver
        drv = os.path.join(OCAML, "drv")
        mdl = os.path.join(COQ, "model.ml")
        drv_ok = True
        if os.path.exists(mdl):
            for ext in ("ml", "mli"):
                os.replace(os.path.join(COQ, "model." + ext), os.path.join(OCAML, "model." + ext))
            rc2, so2, se2 = sh(
                "ocamlfind ocamlopt -w -a -package str model.mli model.ml drv.ml -o drv.new && mv drv.new drv",
                cwd=OCAML, timeout=600,
            )
            if rc2 != 0:
                drv_ok = False
                mlog += "\nOCAML BUILD FAILED\n" + so2 + se2
        if "model/Extract.v" in failed or not os.path.exists(drv):
            drv_ok = False
    res = {"gen": gen_report, "failed": failed, "failed_props": failed_props, "failed_model": failed_model, "failed_advisory": failed_advisory, "driver_ok": drv_ok, "log": mlog[-20000:], "wall_s": round(time.time() - t0, 1)}
    if log:
        with open(log, "w") as f:
            f.write(mlog)
    return res


def compile_props(prop_id):
    """Compile coq/props/<id>.v (and only it) and parse the Print Assumptions output.
    Returns {"ok": bool, "theorems": [{"name","assumptions"}], "error": str}."""
    src = os.path.join(COQ, "props", prop_id + ".v")
    if not os.path.exists(src):
        return {"ok": False, "theorems": [], "error": "no props file"}
    rc, so, se = sh(["coqc", "-R", COQ, "NV", "-w", "-notation-overridden", src], timeout=COQC_TIMEOUT, cwd=COQ)
    text = open(src).read()
    names = re.findall(r"^Print Assumptions (\w+)\.", text, re.M)
    stated = re.findall(r"^(?:Theorem|Corollary)\s+(\w+)", text, re.M)
    res = {"ok": rc == 0, "theorems": [], "error": "", "stated": stated}
    if rc != 0:
        res["error"] = (so + se)[-3000:]
        return res
    # outputs come in order of the Print Assumptions commands
    chunks = re.split(r"(?m)^(?=Closed under the global context|Axioms:)", so)
    chunks = [c for c in chunks if c.startswith("Closed under") or c.startswith("Axioms:")]
    for i, n in enumerate(names):
        ass = chunks[i].strip() if i < len(chunks) else "?"
        res["theorems"].append({"name": n, "assumptions": " ".join(ass.split())})
    return res


FORBIDDEN = re.compile(r"\b(Admitted|admit|Axiom|Axioms|Parameter|Parameters|Conjecture|Conjectures|Admit Obligations|bypass_check|type_in_type)\b|Unset\s+(Guard|Positivity|Universe)\s+Checking|-type-in-type|-impredicative-set")


def strip_comments(text):
    out, depth, i, in_str = [], 0, 0, False
    while i < len(text):
        two = text[i:i + 2]
        if not in_str and two == "(*":
            depth += 1
            i += 2
        elif not in_str and depth and two == "*)":
            depth -= 1
            i += 2
        else:
            if depth == 0:
                if text[i] == '"':
                    in_str = not in_str
                out.append(text[i] if not in_str or text[i] == '"' else " ")
            i += 1
    return "".join(out)


def hygiene(files=None):
    """every .v file of the development (and _CoqProject): nothing admitted, no axiom declared, no kernel check switched off,
    no Variable/Hypothesis outside a section.  Returns a list of offences (empty = clean)."""
    bad = []
    files = files or (coq_files() + ["props/%s" % f for f in sorted(os.listdir(os.path.join(COQ, "props"))) if f.endswith(".v")])
    for f in files + ["_CoqProject"]:
        pth = os.path.join(COQ, f)
        if not os.path.exists(pth):
            continue
        text = strip_comments(open(pth).read()) if f.endswith(".v") else open(pth).read()
        for m in FORBIDDEN.finditer(text):
            bad.append("%s: %s" % (f, m.group(0)))
        if f.endswith(".v"):
            depth = 0
            for sent in re.split(r"\.(?=\s)", text):
                st = sent.strip()
                if re.match(r"(Section|Module(?!\s+Type\s+\w+\s*:=))\s+\w+\s*$", st):
                    depth += 1
                elif re.match(r"End\s+\w+\s*$", st):
                    depth = max(0, depth - 1)
                elif depth == 0 and re.match(r"(Variable|Variables|Hypothesis|Hypotheses|Context)\b", st):
                    bad.append("%s: %s outside a section" % (f, st.split()[0]))
    return bad


ALLOWED_AXIOMS = ()  # none are needed so far; anything listed by Print Assumptions is reported


def axioms_ok(thm):
    return thm["assumptions"].startswith("Closed under the global context")


# ----------------------------------------------------------------------------- runners
def enc_field(s):
    return "-" if s == "" else ".".join(str(ord(c)) for c in s)


def dec_field(s):
    s = s.strip()
    if s in ("-", ""):
        return ""
    if not re.fullmatch(r"[0-9.]+", s):
        return "MODEL-RAW:" + s
    return "".join(chr(int(x)) for x in s.split("."))


def run_model(cases, timeout=3000, jobs=None):
    """Run the extracted Coq model on the cases (list of list of str). Returns list of str."""
    if not cases:
        return []
    drv = os.path.join(OCAML, "drv")
    jobs = jobs or min(16, os.cpu_count() or 4)
    n = len(cases)
    jobs = max(1, min(jobs, n // 8 or 1))
    chunks = [cases[i::jobs] for i in range(jobs)]
    procs = []
    for ch in chunks:
        data = "\n".join(" ".join(enc_field(f) for f in c) for c in ch) + "\n"
        p = subprocess.Popen(["bash", "-c", "ulimit -s unlimited 2>/dev/null; exec " + drv], stdin=subprocess.PIPE, stdout=subprocess.PIPE, stderr=subprocess.PIPE, text=True)
        procs.append((p, data))
    outs = []
    import threading

    results = [None] * len(procs)

    def work(i, p, data):
        try:
            so, se = p.communicate(data, timeout=timeout)
            results[i] = so.split("\n")
        except subprocess.TimeoutExpired:
            p.kill()
            results[i] = []

    ths = [threading.Thread(target=work, args=(i, p, d)) for i, (p, d) in enumerate(procs)]
    [t.start() for t in ths]
    [t.join() for t in ths]
    res = [None] * n
    for j, ch in enumerate(chunks):
        lines = results[j] or []
        for k in range(len(ch)):
            res[j + k * jobs] = dec_field(lines[k]) if k < len(lines) and lines[k] != "" else "MODEL-NO-OUTPUT"
    return res


def run_impl(cases, hashseed="0", timeout=3000, extra_env=None, jobs=None):
    """Run the real netconan (from REPO) on the cases in child interpreters. Returns list of str."""
    if not cases:
        return []
    n = len(cases)
    jobs = jobs or min(8, os.cpu_count() or 4)
    jobs = max(1, min(jobs, n // 50 or 1))
    chunks = [cases[i::jobs] for i in range(jobs)]
    env = dict(os.environ)
    env.update({"PYTHONPATH": REPO, "PYTHONHASHSEED": str(hashseed), "NETCONAN_VERIF": "1", "NETCONAN_REPO": REPO})
    if extra_env:
        env.update(extra_env)
    procs = [
        subprocess.Popen([PY, os.path.join(VERIF, "tools", "impl_run.py")], stdin=subprocess.PIPE, stdout=subprocess.PIPE, stderr=subprocess.PIPE, text=True, env=env, cwd="/")
        for _ in chunks
    ]
    import threading

    results = [None] * len(procs)

    def work(i):
        try:
            so, se = procs[i].communicate(json.dumps(chunks[i]), timeout=timeout)
            results[i] = json.loads(so)
        except subprocess.TimeoutExpired:
            procs[i].kill()
            results[i] = ["IMPL-TIMEOUT"] * len(chunks[i])
        except Exception as e:  # crashed interpreter, syntax error in /repo, ...
            results[i] = ["IMPL-CRASH:%s" % type(e).__name__] * len(chunks[i])

    ths = [threading.Thread(target=work, args=(i,)) for i in range(len(procs))]
    [t.start() for t in ths]
    [t.join() for t in ths]
    res = [None] * n
    for j, ch in enumerate(chunks):
        for k in range(len(ch)):
            res[j + k * jobs] = results[j][k]
    return res


def run_impl_fresh(cases, hashseed="0", timeout=600, jobs=8):
    """every case in an interpreter process of its own (nothing any earlier case did can be seen)"""
    from concurrent.futures import ThreadPoolExecutor

    with ThreadPoolExecutor(max_workers=jobs) as ex:
        return [r[0] for r in ex.map(lambda c: run_impl([c], hashseed=hashseed, timeout=timeout, jobs=1), cases)]


# ----------------------------------------------------------------------------- evidence / verdict
def load_known():
    p = os.path.join(VERIF, "known_findings.json")
    if not os.path.exists(p):
        return []
    return json.load(open(p)).get("findings", [])


def write_json(path, obj):
    os.makedirs(os.path.dirname(path), exist_ok=True)
    tmp = path + ".tmp%d" % os.getpid()
    with open(tmp, "w") as f:
        json.dump(obj, f, indent=1, ensure_ascii=True, default=str)
    os.replace(tmp, path)


def rng_for(prop_id, seed):
    return random.Random("%s:%s" % (prop_id, seed))
