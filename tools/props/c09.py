"""C09: secret replacements are format-compliant and keep their context."""
import re
from . import secretlib, textgen
from .textcommon import TEXT_MODEL_DEPS as MODEL_DEPS, TEXT_TRUSTED as TRUSTED_BASE, TEXT_ASSUMPTIONS as ASSUMPTIONS  # noqa

COQ_DEPS = ["lib/Str.v", "lib/Rx.v", "lib/RxFacts.v", "lib/RxSub.v", "gen/G_rx.v", "gen/G_text_consts.v", "model/TextModel.v", "model/JunModel.v", "model/JunProofs.v", "model/TextProofs.v", "model/TextProofs2.v", "model/Findings.v", "model/EncProofs.v", "lib/PyLib.v", "gen/G_fn_sir.v", "refine/RefEncl.v"]
RULE = ("every single-secret template of the corpus x every format class (type 7 with all salts 0-15, md5-crypt salt lengths 1-8, all 65 $9$ salt characters, sha512, numeric, hex, text) x enclosing-text combinations x indentation; "
        "replacement read back from the output by position and decoded with independent decoders; non-trivial = a distinct (template, class, variant, enclosing) combination")


def check_format(cls, secret, repl):
    """None if repl has the format of class cls, else a description"""
    if cls == "numeric":
        return None if repl.isascii() and repl.isdigit() else "all-digit secret replaced by a non-numeric value"
    if cls == "hex":
        return None if re.fullmatch(r"[0-9a-fA-F]+", repl) else "hexadecimal secret replaced by a non-hexadecimal value"
    if cls == "type7":
        d = textgen.type7_decode(repl)
        return None if d is not None and d.isprintable() and re.fullmatch(r"[01][0-9]([0-9A-F]{2})+", repl) else "type 7 secret replaced by a value that does not decode as type 7"
    if cls == "md5":
        m = re.fullmatch(r"\$1\$([./0-9A-Za-z]*)\$[./0-9A-Za-z]{22}", repl)
        if not m:
            return "md5-crypt secret replaced by a value that is not $1$<salt>$<22 chars>"
        want = min(len(secret.split("$")[2]), 8)
        return None if len(m.group(1)) == want else "md5-crypt salt length %d became %d" % (want, len(m.group(1)))
    if cls == "sha512":
        return None if re.fullmatch(r"\$6\$[./0-9A-Za-z]{1,16}\$[./0-9A-Za-z]{86}", repl) else "sha512-crypt secret replaced by a value that is not $6$<salt>$<86 chars>"
    if cls == "juniper":
        return None if textgen.ref_decrypt9(repl) is not None else "$9$ secret replaced by a value an independent decoder refuses"
    return None


def run(ctx):
    rng, q = ctx.rng, ctx.quick()
    combos = []
    variants = {"type7": list(range(16)), "md5": list(range(1, 9)), "juniper": list(textgen.ALPHA9), "numeric": [None], "hex": [None], "text": [None], "sha512": [None]}
    for cls, vs in variants.items():
        for v in vs:
            for _ in range(1 if q else 6):
                tpl, sample = rng.choice(secretlib.SINGLE)
                enc = rng.choice(secretlib.ENCLOSE + secretlib.ENCLOSE_REPEAT) if '"' not in tpl and rng.random() < 0.5 else ("", "")
                combos.append((tpl, cls, v, enc))
    for tpl, sample in secretlib.SINGLE:           # every template with its own class and with text
        combos.append((tpl, textgen.classify(sample), None, ("", "")))
        combos.append((tpl, "text", None, rng.choice(secretlib.ENCLOSE) if '"' not in tpl else ("", "")))
    for enc in secretlib.ENCLOSE_REPEAT:           # repeated enclosing characters, on a few plain line forms and on the whole line
        for tpl in ("username x password {}", "snmp-server community {}", "enable secret {}"):
            combos.append((tpl, rng.choice(["text", "hex", "numeric"]), None, enc))
    cases, metas = [], []
    for k in range(0, len(combos), 20):
        lines, ms = [], []
        for tpl, cls, v, enc in combos[k:k + 20]:
            s = textgen.make_secret(rng, cls, v)
            ind, tr = rng.choice(["", " ", "   ", "\t"]), rng.choice(["", " ", "  "])
            lines.append(secretlib.build(tpl, s, ind, tr, enc))
            ms.append((tpl, cls, s, enc, ind, tr))
        cases.append(textgen.pipe(lines, flags="p", salt=rng.choice(["s", "Q", "_x", "", "é", "T5"])))
        metas.append(ms)
    # the secret's characters recur elsewhere on the line (inside other words / after the secret): only the secret's position may change
    rec_lines, rec_meta = [], []
    for tpl in ["snmp-server mib community-map {}:100 context {}-mgmt", "set community {} members {}x", "rf-switch snmp-community {} description {}net", "key-hash sha256 {} # was {}",
                "snmp-server community {} RO view {}view", "username {}admin password {}"]:
        s = textgen.make_secret(rng, "text").replace(":", "a").replace("#", "b")
        rec_lines.append(tpl.replace("{}", s) + "\n")
        rec_meta.append((tpl, s))
    cases.append(textgen.pipe(rec_lines, flags="p", salt="s"))
    metas.append(None)
    # histories: a $9$ encryption of a clear text first, then that clear text as a numeric / hex / type 7 secret (and the other order)
    hist_meta = []
    for cls in ("numeric", "hex", "type7"):
        for order in ("juniper-first", "clear-first"):
            s = textgen.make_secret(rng, cls, 3 if cls == "type7" else None)
            e9 = textgen.ref_encrypt9(s, rng.choice(textgen.ALPHA9)) 
            tpl = {"numeric": "snmp-server community {} RO", "hex": "snmp-server community {} RO", "type7": "username x password 7 {}"}[cls]
            l9, lc = 'set system tacplus-server 9.9.9.9 secret "%s"\n' % e9, tpl.replace("{}", s) + "\n"
            cases.append(textgen.pipe([l9, lc] if order == "juniper-first" else [lc, l9], flags="p", salt="s"))
            metas.append(("hist", cls, order, s, tpl))
    m, i = ctx.correspond(cases, project=lambda c, o: textgen.norm(o), label="secrets")
    # the function GENERATED from _extract_enclosing_text against the real one: all strings over the enclosing characters and a filler up to length 5/6, and longer random ones
    import itertools
    alpha = ["'", '"', "\\", " ", "[", "]", "{", "}", ";", ",", "x"]
    encl = ["".join(t) for n in range(0, 4 if q else 5) for t in itertools.product(alpha, repeat=n)]
    encl += ["".join(rng.choice(alpha) for _ in range(rng.randrange(5, 40))) for _ in range(200 if q else 5000)]
    ctx.correspond([["genc", v] for v in encl], label="generated-code")
    nt = 0
    for c, out, ms in zip(cases, i, metas):
        if ms is not None and ms[0] == "hist":
            _, cls, order, s, tpl = ms
            if out.startswith("RAISED"):
                ctx.fail("processing raised", c[:11], out, label="raised")
                continue
            o = textgen.outlines(out)[1 if order == "juniper-first" else 0]
            st, repl = secretlib.read_back(tpl, o, ("", ""))
            why = check_format(cls, s, repl) if st == "ok" and repl != s else None
            if why:
                ctx.fail(why + " (history: %s)" % order, {"lines": c[11:], "class": cls, "secret": s}, o, label="clear-after-juniper" if order == "juniper-first" else "impl")
            continue
        if ms is None:
            if not out.startswith("RAISED"):
                for l, o, (tpl, s) in zip(c[11:], textgen.outlines(out), rec_meta):
                    ti, to = l.split(), o.split()
                    changed = [(a, b) for a, b in zip(ti, to) if a != b]
                    if len(ti) != len(to) or len(changed) > 1:
                        ctx.fail("text before/after the secret changed (the secret's characters occur elsewhere on the line)", {"line": l, "secret": s}, o, label="impl")
            continue
        if out.startswith("RAISED"):
            ctx.fail("processing raised", c[:11], out, label="raised")
            continue
        for l, o, (tpl, cls, s, enc, ind, tr) in zip(c[11:], textgen.outlines(out), ms):
            nt += 1
            st, repl = secretlib.read_back(tpl, o, enc)
            if st == "scrubbed":
                continue
            if not (o.startswith(ind) and o.endswith(tr + "\n")):
                ctx.fail("indentation / trailing whitespace not kept", {"line": l, "template": tpl}, o, label="impl")
            if st == "context":
                lab = "impl"
                if cls == "numeric" and re.search(r"(password|passwd) (level \d+ )?\{\}.", tpl + "."):
                    lab = "numeric-after-password"
                ctx.fail("text around the secret (prefix, quotes/brackets/terminators, text after it) is not kept in place", {"line": l, "template": tpl, "class": cls, "enclosing": enc}, o, label=lab)
                continue
            if repl == s:
                continue            # not replaced at all: C07's subject
            why = check_format(cls, s, repl)
            if why:
                ctx.fail(why, {"line": l, "template": tpl, "class": cls, "secret": s}, o, label="impl")
    ctx.evaluations = sum(len(c) - 11 for c in cases)
    ctx.distinct_nontrivial = len({(t, c, s, e) for ms in metas if ms and ms[0] != "hist" for (t, c, s, e, _, _) in ms})
    ctx.search_stats = {"cases": len(cases), "lines": ctx.evaluations, "classes": {k: len(v) for k, v in variants.items()}}
    ctx.samples = [textgen.sample(cases[0], i[0], 0), textgen.sample(cases[2], i[2], 1)]
