"""Shared helpers for C07/C08/C09: building secret-bearing lines from the template corpus and reading the replacement back."""
from . import textgen

SCRUB = "! Sensitive line SCRUBBED by netconan"
AWS = [t for t, s in textgen._T["aws_lines"]]
SINGLE = [(t, s) for t, s in textgen.TEMPLATES if t.count("{}") == 1 and "{0}" not in t and t not in AWS]       # AWS keys are fixed 32-character fields
# line forms the template corpus does not have: type / level fields of more than one digit
SINGLE += [("enable password 10 {}", "x"), ("password 15 {}", "x"), ("enable password level 15 10 {}", "x"), ("username admin password 12 {}", "x"), ("passwd 100 {}", "x")]
ENCLOSE = [("", ""), ('"', '"'), ("'", "'"), ("[", "]"), ("{", "}"), ("", ";"), ("", ","), ('"', '";'), ("\\'", "\\'"), ('\\"', '\\"')]


ENCLOSE_REPEAT = [('""', '""'), ("", "}}"), ("[[", "]]"), ("{{", "}}"), ('"', '"}}'), ("''", "''"), ("", ";;"), ('{"', '"}}'), ("[", "]]"),
                  ('{["', '"]},'), ("[{'", "'}];"), ('{"', '"}];,')]     # four and five rounds of stripping   # the same enclosing character several times in a row


def norm_ws(s):
    return " ".join(s.split())


def build(tpl, secret, indent="", trail="", enclose=("", "")):
    body = tpl.replace("{}", enclose[0] + secret + enclose[1])
    return indent + body + trail + "\n"


def read_back(tpl, line_out, enclose=("", "")):
    """returns ('scrubbed', None) | ('ok', replacement) | ('context', None) for an output line of template tpl"""
    o = norm_ws(line_out)
    if SCRUB in o:
        return "scrubbed", None
    pre, post = tpl.split("{}")
    # templates that already carry quotes around {} keep them; extra enclosing text is kept next to the value
    pre, post = norm_ws(pre + "\x00").rstrip("\x00"), norm_ws("\x00" + post).lstrip("\x00")
    pre2, post2 = pre + enclose[0], enclose[1] + post
    if o.startswith(pre2) and o.endswith(post2) and len(o) >= len(pre2) + len(post2):
        return "ok", o[len(pre2): len(o) - len(post2)]
    return "context", None


def core(repl):
    """what two replacements are compared by: the decrypted plaintext for $9$, the string itself otherwise"""
    if repl.startswith("$9$"):
        d = textgen.ref_decrypt9(repl)
        return ("9", d) if d is not None else ("raw", repl)
    return ("raw", repl)


def secret_key(secret):
    if secret.startswith("$9$"):
        d = textgen.ref_decrypt9(secret)
        if d:
            return d
    return secret
