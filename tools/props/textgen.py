"""Case construction for the line pipeline (`pipe` command) shared by the text-level properties."""
import re

SEP = "\x01"
_ORC = {}


def optlist(l):
    return "N" if l is None else "L" + SEP.join(l)


def oracle_for(lines, nmax=None):
    """passlib answers the model needs: md5_crypt with the static salt of each size seen, sha512_crypt with the static salt,
    for pseudonym numbers 0..nmax (at most one new pseudonym per regex item per line)"""
    text = "".join(lines)
    need_md5 = "$1$" in text
    need_sha = "$6$" in text
    if not (need_md5 or need_sha):
        return ""
    from passlib.hash import md5_crypt, sha512_crypt

    nmax = 2 * len(lines) + 2 if nmax is None else nmax
    ents = []
    sizes = set()
    if need_md5:
        for m in re.finditer(r"\$1\$([^$\s]*)\$", text):
            sizes.add(min(len(m.group(1)), 8))
        sizes.add(8)
    for n in range(nmax):
        pw = "netconanRemoved%d" % n
        for sz in sorted(sizes):
            k = "m%d:%s" % (sz, pw)
            if k not in _ORC:
                _ORC[k] = md5_crypt.using(salt="0" * sz).hash(pw) if sz > 0 else md5_crypt.using(salt="").hash(pw)
            ents.append(k + "\x02" + _ORC[k])
        if need_sha:
            k = "s:" + pw
            if k not in _ORC:
                _ORC[k] = sha512_crypt.using(rounds=5000, salt="0" * 16).hash(pw)
            ents.append(k + "\x02" + _ORC[k])
    return SEP.join(ents)


def pipe(lines, flags="", salt="s", words=None, asnums=None, reserved=None, pfx="-", nets="-", b4=8, b6=8):
    return ["pipe", flags, salt, optlist(words), optlist(asnums), optlist(reserved), pfx, nets, str(b4), str(b6), oracle_for(lines) if "p" in flags else ""] + list(lines)


def norm(out):
    """canonical form for comparing model and implementation: any raise is just RAISED"""
    return "RAISED" if out.startswith("RAISED") else out


def outlines(out):
    body = out.split("\x04")[0]
    return body.split("\x03")


# ----------------------------------------------------------------------------- secrets
import json
import os
import string

_T = json.load(open(os.path.join(os.path.dirname(os.path.abspath(__file__)), "secret_templates.json")))
TEMPLATES = [t for t in _T["sensitive_lines"] if "authenitcation" not in t[0]]      # the deliberately misspelt line is not a recognised form
SECRET_CHARS = "".join(c for c in string.printable[:94] if c not in "'\"\\;,[]{} ")  # printable non-space ASCII minus quote/terminator characters
FAM = ["QzF3n6/9CAtpu0O", "B1IREhcSyrleKvMW8LXx", "7N-dVbwsY2g4oaJZGUDj", "iHkq.mPf5T"]
ALPHA9 = "".join(FAM)
ROWS9 = [[1, 4, 32], [1, 16, 32], [1, 8, 32], [1, 64], [1, 32], [1, 4, 16, 128], [1, 32, 64]]
T7KEY = "dsfd;kfoA,.iyewrkldJKDHSUBsgvca69834ncxv9873254k;fg87"
MD5CHARS = string.ascii_letters + string.digits + "./"


def ref_encrypt9(plain, saltch):
    """independent $9$ encoder (from the Crypt::Juniper description) used only to BUILD inputs"""
    extra = 3 - next(i for i, f in enumerate(FAM) if saltch in f)
    out = "$9$" + saltch + "net"[:extra]
    prev = saltch
    for pos, ch in enumerate(plain):
        row = ROWS9[pos % 7]
        v = ord(ch)
        gaps = []
        for w in reversed(row):
            gaps.insert(0, v // w)
            v %= w
        for g in gaps:
            prev = ALPHA9[(g + ALPHA9.index(prev) + 1) % 65]
            out += prev
    return out


def ref_decrypt9(s):
    if not s.startswith("$9$"):
        return None
    body = s[3:]
    if len(body) < 4 or any(c not in ALPHA9 for c in body):
        return None
    first = body[0]
    extra = 3 - next(i for i, f in enumerate(FAM) if first in f)
    body = body[1 + extra:]
    prev, out = first, []
    while body:
        row = ROWS9[len(out) % 7]
        nib, body = body[: len(row)], body[len(row):]
        if len(nib) != len(row):
            return None
        v = 0
        for ch, w in zip(nib, row):
            v += ((ALPHA9.index(ch) - ALPHA9.index(prev)) % 65 - 1) * w
            prev = ch
        out.append(chr(v % 256))
    return "".join(out)


def type7_decode(s):
    """independent Cisco type 7 decoder; None if not decodable"""
    try:
        salt = int(s[:2])
        data = bytes.fromhex(s[2:])
        return "".join(chr(b ^ ord(T7KEY[(salt + i) % 53])) for i, b in enumerate(data))
    except Exception:
        return None


def type7_encode(plain, salt):
    return "%02d" % salt + "".join("%02X" % (ord(c) ^ ord(T7KEY[(salt + i) % 53])) for i, c in enumerate(plain))


CLASSES = ["text", "numeric", "hex", "type7", "md5", "sha512", "juniper"]


def classify(tok):
    """independent format classifier written from the property text (shape only)"""
    if tok.startswith("$9$") and len(tok) > 3:
        return "juniper"
    if tok.startswith("$6$") and len(tok) > 3:
        return "sha512"
    import re as _re
    if _re.fullmatch(r"\$1\$[^\s$]+\$\S+", tok) or _re.fullmatch(r"\$1\$\S+\$\S+", tok):
        return "md5"
    if tok.isascii() and tok.isdigit():
        return "numeric"
    if _re.fullmatch(r"[01][0-9]([0-9a-fA-F]{2})+", tok):
        return "type7"
    if _re.fullmatch(r"[0-9a-fA-F]+", tok):
        return "hex"
    return "text"


_RESERVED = None


def reserved_words():
    global _RESERVED
    if _RESERVED is None:
        import subprocess
        code = "import json,sys,os; sys.path.insert(0,os.environ.get('NETCONAN_REPO','/repo')); from netconan.default_reserved_words import default_reserved_words as d; print(json.dumps(sorted(d)))"
        _RESERVED = set(json.loads(subprocess.run(["/venv/bin/python", "-c", code], capture_output=True, text=True).stdout))
    return _RESERVED


def _make_secret(rng, cls, variant=None):
    if cls == "text":
        n = rng.choice([4, 6, 8, 12, 20])
        return "".join(rng.choice(SECRET_CHARS) for _ in range(n))
    if cls == "numeric":
        return "".join(rng.choice(string.digits) for _ in range(rng.choice([5, 6, 8, 12])))
    if cls == "hex":
        return "".join(rng.choice("0123456789abcdefABCDEF") for _ in range(rng.choice([5, 7, 8, 12, 31])))
    if cls == "type7":
        plain = "".join(rng.choice(string.ascii_letters + string.digits) for _ in range(rng.choice([2, 4, 8, 11, 26, 40, 63])))
        return type7_encode(plain, rng.randrange(16) if variant is None else variant)
    if cls == "md5":
        n = rng.choice([1, 2, 4, 8]) if variant is None else variant
        return "$1$" + "".join(rng.choice(MD5CHARS) for _ in range(n)) + "$" + "".join(rng.choice(MD5CHARS) for _ in range(22))
    if cls == "sha512":
        return "$6$" + "".join(rng.choice(MD5CHARS) for _ in range(rng.choice([4, 8, 16]))) + "$" + "".join(rng.choice(MD5CHARS) for _ in range(86))
    if cls == "juniper":
        plain = "".join(rng.choice(string.ascii_letters + string.digits + "!#%") for _ in range(rng.choice([1, 5, 8, 12, 30, 64])))
        return ref_encrypt9(plain, rng.choice(ALPHA9) if variant is None else variant)
    raise ValueError(cls)


def make_secret(rng, cls, variant=None):
    """a secret of format class cls (by the independent classifier), not a reserved word, not starting with '$' unless a hash"""
    while True:
        s = _make_secret(rng, cls, variant)
        if classify(s) != cls or s in reserved_words() or s.lower() in reserved_words():
            continue
        if cls == "text" and (s.startswith("$") or s[0] in "-_" or s.isdigit()):
            continue
        return s


def same_class_variant(secret):
    c = classify(secret)
    if c == "md5":
        return len(secret.split("$")[2])
    return None


def template_class(tpl):
    """classes a template's secret position can carry (any class is syntactically fine except where the line form fixes it)"""
    t, sample = tpl
    return classify(sample)


def sample(case, out, k=0):
    """a (line, implementation output line) pair for the evidence file; tolerant of RAISED / short outputs"""
    ls = outlines(out)
    return {"line": case[11 + k] if len(case) > 11 + k else None, "impl": ls[k][:300] if k < len(ls) else out[:120]}
