"""C15: enabling several features equals applying them one after another."""
import itertools
import vlib
from . import ipgen, linegen, textgen
from . import c12
from .textcommon import TEXT_MODEL_DEPS as MODEL_DEPS, TEXT_TRUSTED as TRUSTED_BASE, TEXT_ASSUMPTIONS as ASSUMPTIONS  # noqa

COQ_DEPS = ["lib/Str.v", "lib/Rx.v", "lib/RxFacts.v", "lib/RxSub.v", "gen/G_rx.v", "gen/G_text_consts.v", "model/TextModel.v", "model/TextProofs.v"]
RULE = ("multi-line texts mixing all kinds of sensitive items; for each of the 16 feature subsets (and undo in place of anonymize for the IP stage) the multi-feature run is compared with the chain of single-feature runs "
        "in the order secrets, IP (IPv6 then IPv4), words, AS numbers, on the implementation and on the model; non-trivial = a subset with at least two features on a text where at least two of them change something")


RESERVED = ["Seattle-core", "KAYAK1"]


def chain(run, base, sub, lines):
    """apply the single-feature anonymizers one after another; returns output lines or 'RAISED'"""
    cur = list(lines)
    for f in "pawn":
        if f not in sub:
            continue
        kw = dict(base)
        flags = kw.pop("ipflag") if f == "a" else ("p" if f == "p" else "")
        kw.pop("ipflag", None)
        c = textgen.pipe(cur, flags=flags, words=kw["words"] if f == "w" else None, asnums=kw["asnums"] if f == "n" else None, reserved=kw.get("reserved"),
                         salt=kw["salt"], pfx=kw["pfx"], nets=kw["nets"], b4=kw["b4"], b6=kw["b6"])
        out = run([c])[0]
        if out.startswith("RAISED"):
            return "RAISED"
        cur = textgen.outlines(out)
    return cur


def run(ctx):
    rng, q = ctx.rng, ctx.quick()
    subsets = ["".join(x for x, on in zip("pawn", bits) if on) for bits in itertools.product([0, 1], repeat=4)]
    cases, metas = [], []
    for rep in range(1 if q else 12):
        for sub in subsets:
            for ipflag in (["a"] if "a" not in sub else ["a", "u"]):
                text = [l if l.endswith("\n") else l + "\n" for l, _ in c12.build_text(rng, 8)]
                base = dict(salt=rng.choice(ipgen.SALTS), words=c12.WORDS, asnums=c12.ASNUMS, pfx=rng.choice(["-", "D", ipgen.net("10.0.0.0", 8)]), nets=rng.choice(["-", "P"]),
                            b4=rng.choice([8, 0, 16]), b6=rng.choice([8, 0, 64]), ipflag=ipflag, reserved=rng.choice([None, RESERVED]))
                if "a" in sub and "n" in sub and ipflag == "a":
                    # AS numbers that are NOT in the input but appear once the IP stage has rewritten it
                    o1 = vlib.run_impl([textgen.pipe(text, flags="a", salt=base["salt"], pfx=base["pfx"], nets=base["nets"], b4=base["b4"], b6=base["b6"])])[0]
                    if not o1.startswith("RAISED"):
                        before = {l[a:b] for l in text for a, b in linegen.digit_runs(l)}
                        after = [o[a:b] for o in textgen.outlines(o1) for a, b in linegen.digit_runs(o) if o[a:b] not in before and len(o[a:b]) >= 2]
                        if after:
                            base["asnums"] = sorted(set(after))[:3] + c12.ASNUMS
                flags = ("p" if "p" in sub else "") + (ipflag if "a" in sub else "")
                cases.append(textgen.pipe(text, flags=flags, salt=base["salt"], words=c12.WORDS if "w" in sub else None, asnums=base["asnums"] if "n" in sub else None, reserved=base["reserved"],
                                          pfx=base["pfx"], nets=base["nets"], b4=base["b4"], b6=base["b6"]))
                metas.append((sub, base, text))
    # directed texts: an AS number touching a dot / equal to an address octet; a secret equal to the lower-cased form of a user reserved word
    directed = ["router bgp 65001.\n", "neighbor 10.65001.1.1 remote-as 0.65001\n", "ip route 64512.0.0.0 10.64512.0.1 AS 64512.\n", "peer 65001.2.3.4 65001\n", " description AS65001.seattle-core.\n",
                "snmp-server community labcore RO\n", "username LabCore password labcore\n", "hostname LabCore seattle labcore\n", "enable password seattle-core\n",
                # digit-free lines into which an EARLIER stage writes digits that are a listed AS number: the first secret's pseudonym ends in 0, the
                # pseudonym of the word "uniform" under salt "s" is 688565 (md5("s" + word)[:6] happens to be all digits)
                "snmp-server community plainsecret RO\n", "interface uniform description none\n", "banner uniform;\n",
                # lines the secrets stage SCRUBS from its match onward, with an address, a sensitive word and an AS number BEFORE the match: the later
                # stages still have work to do on what is left of the line
                "interface Cable1/0 description uplink to 23.45.67.89 cable shared-secret 0 S3cr3tValue\n",
                "set system login user lab peer 65001 at 11.22.33.44 encrypted-password abcdef\n",
                " description seattle 2001:db8::17 as 65001 cable shared-secret lab\n"]
    for sub in subsets:
        for ipflag in (["a"] if "a" not in sub else ["a", "u"]):
            base = dict(salt="s", words=c12.WORDS + ["lab", "uniform"], asnums=c12.ASNUMS + ["10", "65001", "0", "688565"], pfx="-", nets="-", b4=8, b6=8, ipflag=ipflag, reserved=["LabCore", "Seattle-core"])
            flags = ("p" if "p" in sub else "") + (ipflag if "a" in sub else "")
            cases.append(textgen.pipe(directed, flags=flags, salt="s", words=base["words"] if "w" in sub else None, asnums=base["asnums"] if "n" in sub else None, reserved=base["reserved"]))
            metas.append((sub, base, directed))
    def project(c, o):
        """does the combined run complete (what decides C15 is, on each side separately, combined run == chain of single-feature runs)"""
        return "RAISED" if o.startswith("RAISED") else "completed"
    m, i = ctx.correspond(cases, project=project, label="multi-feature")
    nt = 0
    for c, out, mo, (sub, base, text) in zip(cases, i, m, metas):
        exp = chain(vlib.run_impl, base, sub, text)
        got = "RAISED" if out.startswith("RAISED") else textgen.outlines(out)
        if got != exp:
            k = next((j for j in range(min(len(got), len(exp))) if got[j] != exp[j]), 0) if isinstance(got, list) and isinstance(exp, list) else 0
            ctx.fail("features {%s}%s: combined run differs from the chain of single-feature runs" % (sub, " (undo)" if base["ipflag"] == "u" else ""),
                     {"line": text[k] if k < len(text) else None, "features": sub, "options": {x: base[x] for x in ("salt", "pfx", "nets", "b4", "b6")}},
                     got[k] if isinstance(got, list) and k < len(got) else got, exp[k] if isinstance(exp, list) and k < len(exp) else exp, label="impl")
        if ctx.model_ok and mo is not None and len(sub) >= 2 and rng.random() < (0.5 if q else 0.15):
            expm = chain(vlib.run_model, base, sub, text)
            gotm = "RAISED" if mo.startswith("RAISED") else textgen.outlines(mo)
            if gotm != expm:
                ctx.disagreements.append({"case": c[:11], "label": "model: combined != chain", "model": str(gotm)[:300], "impl": str(expm)[:300]})
        if len(sub) >= 2:
            nt += 1
    n_cli = command_line_subsets(ctx, rng)
    ctx.evaluations = len(cases) * 2 + n_cli
    ctx.distinct_nontrivial = nt
    ctx.search_stats = {"cases": len(cases), "subsets": len(subsets)}
    ctx.samples = [dict(textgen.sample(cases[7], i[7], 0), features=metas[7][0])]


def command_line_subsets(ctx, rng):
    """through the real command line: options given together = the same options given in consecutive runs (secrets, then addresses, then words, then AS numbers), also with --undo"""
    import base64
    import json
    text = ("hostname edge1\nusername admin password hunter2secret\nsnmp-server community FreshComm RO\nip address 11.22.33.44 255.255.255.0\nipv6 address 2001:db8::5/64\n"
            "router bgp 65001\n description uplink seattle\nset system tacplus-server 9.9.9.9 secret \"%s\"\n" % textgen.ref_encrypt9("hunter2", "Q"))
    def cli(opts, content):
        o = dict(opts, single="r.cfg")
        out = vlib.run_impl([["files", "main", json.dumps(o), json.dumps([["r.cfg", base64.b64encode(content.encode()).decode(), {}]])]])[0]
        try:
            r = json.loads(out)
            return None if r["raised"] else r["out"].get("r.cfg")
        except Exception:
            return None
    n = 0
    common = {"salt": "s", "hostbits": 8}
    for feats in (["pwd", "undo"], ["pwd", "ip"], ["pwd", "ip", "words"], ["ip", "asnums"], ["pwd", "undo", "words", "asnums"]):
        def opt(fs):
            o = dict(common)
            for f in fs:
                if f == "pwd":
                    o["pwd"] = True
                elif f == "ip":
                    o["ip"] = True
                elif f == "undo":
                    o["undo"] = True
                elif f == "words":
                    o["words"] = ["seattle"]
                elif f == "asnums":
                    o["asnums"] = ["65001"]
            return o
        combined = cli(opt(feats), text)
        cur = text
        for f in feats:
            cur = cli(opt([f]), cur) if cur is not None else None
        n += 1
        if combined is None or cur is None or combined != cur:
            ctx.fail("command line: options %s given together differ from the same options given in consecutive runs" % feats, {"options": feats, "text": text},
                     (combined or "<no output>")[:300], (cur or "<no output>")[:300], label="impl-cli")
    return n
