"""Shared declarations for the text-level property modules."""
TEXT_MODEL_DEPS = ["lib/Str.v", "lib/Rx.v", "lib/RxFacts.v", "lib/RxSub.v", "lib/IpText.v", "lib/Md5.v", "lib/Memo.v", "lib/Mask.v", "lib/PPCore.v",
                   "gen/G_rx.v", "gen/G_fn_sir.v", "lib/PyLib.v", "lib/PyRe.v", "gen/G_text_consts.v", "gen/G_juniper.v", "gen/G_as_num.v", "gen/G_ip_consts.v",
                   "model/IpModel.v", "model/JunModel.v", "model/AsModel.v", "model/TextModel.v", "model/DriverIp.v", "model/DriverText.v", "model/Driver.v", "model/Extract.v"]
TEXT_TRUSTED = [
    "Coq 8.16.1 kernel; vm_compute where a theorem says so (finite facts about generated regex ASTs / tables)",
    "axioms: none declared; Print Assumptions output is recorded per theorem in this evidence file",
    "generated units (regenerated from /repo on every run): gen/G_rx.v (all compiled patterns of ip_anonymization.py, sensitive_item_removal.py, default_pwd_regexes.py parsed by CPython's own re._parser; "
    "the format-detection function _check_sensitive_item_format is TRANSLATED as a function (tools/translate.py -> gen/G_fn_sir.v, its literal patterns parsed the same way) and called by the model), gen/G_text_consts.v (scrub message, enclosing texts, reserved words, word length), gen/G_juniper.v, gen/G_as_num.v, gen/G_ip_consts.v",
    "tools/rxgen.py + re._parser (translator for regexes): trusted as far as the correspondence run exercises it",
    "hand-written model model/TextModel.v of the per-line pipeline and lib/Rx*.v (regex engine), lib/IpText.v (ipaddress text), lib/Str.v (str primitives): tied to /repo by this check's correspondence run through FileAnonymizer.anonymize_io",
    "passlib md5_crypt / sha512_crypt are oracles (answers supplied with each case); cisco_type7 is re-implemented in the model",
    "extraction: ExtrOcamlBasic only, no Extract Constant; extracted code used only for correspondence/search",
]
TEXT_ASSUMPTIONS = ["Python str.lower()/regex IGNORECASE are modelled for ASCII word lists only (other lists are out of the model's domain and are exercised on the implementation alone)",
                    "universal-newline translation by open() is outside the model (lines are what readlines() yields)"]
