"""Cache-free reference for the address mapping, written from the property text (not from netconan):
output bit i = input bit i XOR keyed-hash(original bits before i); no flip on proper prefixes of a preserved
prefix; the last B bits verbatim.  Used as the oracle of the search stage."""
import hashlib
import functools


@functools.lru_cache(maxsize=200000)
def hbit(salt, h):
    return int(hashlib.md5((salt + h).encode()).hexdigest()[-1], 16) & 1


def seeds_of(pfx_field, addr_field, defaults):
    out = []
    for f in (pfx_field, addr_field):
        if f == "-":
            continue
        items = []
        for it in f.split(";"):
            items += defaults[it] if it in defaults else [it]
        for n in items:
            a, l = n.split("/")
            out.append(format(int(a), "032b")[: int(l)])
    return out


DEFAULTS = {
    "D": ["0/1", "2147483648/2", "3221225472/3", "3758096384/4", "167772160/8", "2886729728/12", "3232235520/16"],
    "P": ["167772160/8", "2886729728/12", "3232235520/16"],
}


def pinned(seeds, h):
    return any(len(h) < len(P) and P.startswith(h) for P in seeds)


def image(H, width, B, seeds, x, undo=False):
    bits = format(x, "0%db" % width)
    m = width - B
    orig = ""
    out = ""
    for i in range(m):
        f = 0 if pinned(seeds, orig) else H(orig)
        if undo:
            o = str(int(bits[i]) ^ f)
            orig += o
            out += o
        else:
            out += str(int(bits[i]) ^ f)
            orig += bits[i]
    return int(out + bits[m:], 2) if width else 0


def salter_of(spec):
    if spec.startswith("md5:"):
        salt = spec[4:]
        return lambda h: hbit(salt, h)
    ones = set("" if p == "e" else p for p in spec[4:].split("|"))
    return lambda h: 1 if h in ones else 0


def ref_for_case(case):
    """returns (width, function op-> expected int) for a base/ip4/ip6 case"""
    if case[0] == "base":
        w, B, H, seeds = int(case[1]), int(case[2]), salter_of(case[3]), []
    elif case[0] == "ip6":
        w, B, H, seeds = 128, int(case[1]), salter_of(case[2]), []
    else:
        w, B, H = 32, int(case[1]), salter_of(case[2])
        seeds = seeds_of(case[3], case[4], DEFAULTS)
    return w, B, seeds, (lambda op: image(H, w, B, seeds, int(op[1:]), undo=(op[0] == "d")))


def in_net(x, n):
    a, l = n.split("/")
    a, l = int(a), int(l)
    return l == 0 or (x >> (32 - l)) == (a >> (32 - l))


def nets_of(field):
    if field == "-":
        return []
    out = []
    for item in field.split(";"):
        out += DEFAULTS[item] if item in DEFAULTS else [item]
    return out


def is_mask_ref(x):
    """ones then zeros, or zeros then ones (incl. all-zero / all-one), by string shape"""
    b = format(x, "032b")
    return b.lstrip("1").strip("0") == "" or b.lstrip("0").strip("1") == ""
