"""C10: listed sensitive words never survive; reserved words always do."""
import hashlib
import vlib
from . import linegen, textgen
from .textcommon import TEXT_MODEL_DEPS as MODEL_DEPS, TEXT_TRUSTED as TRUSTED_BASE, TEXT_ASSUMPTIONS as ASSUMPTIONS  # noqa

COQ_DEPS = ["lib/Str.v", "lib/Rx.v", "lib/RxFacts.v", "lib/RxSub.v", "lib/Words.v", "gen/G_rx.v", "gen/G_text_consts.v", "model/TextModel.v", "model/TextProofs.v"]
RULE = ("word lists with mixed case, prefixes/substrings of each other, words overlapping built-in reserved words; lines with the words embedded in longer strings, in other case, adjacent to punctuation; "
        "user reserved words; every case run on the implementation under 3 hash seeds (quick) / 8 (thorough); oracle: case-insensitive search of the output for every listed word outside reserved tokens; "
        "non-trivial = a distinct line containing a listed word")

WORDLISTS = [["sea", "seattle"], ["seattle", "sea"], ["Intentionet", "net"], ["router", "out"], ["ZooKeeper", "zoo", "keeper"], ["lab", "LAB-x", "x_y"], ["kitchen", "sink"], ["password"], ["ip"],
             ["sunnyvale", "sunny", "vale", "y"], ["Kay", "say"], ["pass", "vlan", "switch"], ["port", "net"]]
RESERVED_USER = [None, ["zookeeper"], ["Seattle-core"], ["lab_sw-01", "kayak"]]


def good_word(w):
    """the quantifier's guard: starts and ends with a letter outside a-f, no run of six hex digits"""
    import re
    lw = w.lower()
    return lw[0].isalpha() and lw[0] not in "abcdef" and lw[-1].isalpha() and lw[-1] not in "abcdef" and not re.search(r"[0-9a-f]{6}", lw)


def word_lines(rng, words, n):
    lines = []
    for _ in range(n):
        items = []
        for _ in range(rng.randrange(1, 5)):
            w = rng.choice(words)
            k = rng.randrange(8)
            if k == 0:
                tok = w
            elif k == 1:
                tok = w.upper()
            elif k == 2:
                tok = "".join(c.upper() if rng.random() < 0.5 else c.lower() for c in w)
            elif k == 3:
                tok = rng.choice(["pre", "x-", "core_", "(", "1"]) + w + rng.choice(["", "s", "-01", ")", ".example.com", "9"])
            elif k == 4:
                tok = w + w
            elif k == 5:
                tok = rng.choice(linegen.ORDINARY + ["search", "description", "interface", "zookeeper", "kayak", "Seattle-core"])
            elif k == 7:
                # a reserved word that contains the listed word, with punctuation glued to it: no longer exactly a reserved word
                cands = sorted(r for r in RESERVED if w.lower() in r)
                tok = (rng.choice(cands) if cands else w) + rng.choice([";", ";;", ",", ")", ":", "."])
            else:
                tok = w[: max(1, len(w) - 1)]           # a proper prefix of a listed word: not listed itself
            items.append(tok)
        lines.append(linegen.mk_line(rng, items))
    return lines


def run(ctx):
    rng, q = ctx.rng, ctx.quick()
    cases = []
    for words in WORDLISTS:
        for res in (RESERVED_USER if not q else RESERVED_USER[:2]):
            cases.append(textgen.pipe(word_lines(rng, words, 10), flags="", salt=rng.choice(["s", "", "sälz", "netconan"]), words=words, reserved=res))
    m, i = ctx.correspond(cases, project=lambda c, o: textgen.norm(o), label="words")
    seeds = [1, 2, 3] if q else [1, 2, 3, 4, 5, 6, 7, 8]
    for hs in seeds:
        ih = vlib.run_impl(cases, hashseed=hs)
        for c, a, b in zip(cases, i, ih):
            if a != b:
                ctx.fail("output differs between PYTHONHASHSEED=0 and %d" % hs, c[:11], {"seed0": a[:300], "seed%d" % hs: b[:300]}, label="hashseed")
    nt = 0
    for c, out in zip(cases, i):
        salt, words, lines = c[2], c[3][1:].split("\x01"), c[11:]
        res_user = [] if c[5] == "N" else c[5][1:].split("\x01")
        if out.startswith("RAISED"):
            ctx.fail("processing raised", c[:11], out, label="impl")
            continue
        listed = [w for w in words if good_word(w)]
        for l, o in zip(lines, textgen.outlines(out)):
            if any(w.lower() in l.lower() for w in words):
                nt += 1
            for tok in o.split():
                low = tok.lower()
                for w in listed:
                    if w.lower() in low:
                        # allowed only when the token is exactly a reserved word
                        is_reserved_exact = low in RESERVED or low in [r.lower() for r in res_user]
                        lab = "impl"
                        if not is_reserved_exact:
                            ctx.fail("listed word %r survives in output token %r" % (w, tok), {"line": l, "words": words, "reserved": res_user, "salt": salt}, o, label=lab)
            # reserved tokens untouched
            for ti, to in zip(l.split(), o.split()):
                if (ti in res_user or ti in RESERVED) and ti != to:
                    ctx.fail("reserved word token %r was changed to %r" % (ti, to), {"line": l, "words": words, "reserved": res_user}, o, label="impl")
    # secrets stage: a value that is a reserved word (built-in or user-supplied, as given) is left as is
    rs = textgen.pipe(["username admin password CorpDefault\n", "snmp-server community CorpDefault RO\n", "enable password description\n", "password corpdefault\n"], flags="p", reserved=["CorpDefault"])
    rm, ri = ctx.correspond([rs], project=lambda c, o: textgen.norm(o), label="reserved-secret")
    if not ri[0].startswith("RAISED"):
        ro = textgen.outlines(ri[0])
        for k in (0, 1, 2):
            if ro[k] != rs[11 + k]:
                ctx.fail("a secret value equal to a reserved word was not left as is", {"line": rs[11 + k], "reserved": ["CorpDefault"]}, ro[k], rs[11 + k], label="impl")
        if "corpdefault" in ro[3]:
            ctx.fail("a secret that differs in case from the user's reserved word was left in place", {"line": rs[14]}, ro[3], label="impl")
    # together with the secrets stage: listed words next to secrets, on lines the secrets stage replaces in place and on lines it scrubs
    mixed = []
    for words in (["seattle", "sea"], ["kitchen", "sink"]):
        w = words[0]
        ls = ["interface cable-%s1 cable shared-secret FOOBAR99\n" % w, "%s-gw neighbor 1.2.3.4 password 7 0822455D0A16\n" % w, "username %s password hunter2xyz\n" % w.upper(),
              "vpdn username %s-user password opensesame\n" % w, "description %s key-string hunter3xyz %s\n" % (w, w), " wpa-psk ascii 0 %sPSK1234\n" % w, "snmp-server community %sRO RO\n" % w,
              "snmp-server location %s-dc1 rack 4\n" % w, "ldap-login-password %s123 host %s\n" % (w, w), "ip ospf message-digest-key 1 md5 7 0822455D0A16 ! %s\n" % w]
        for flags in ("p", "pa"):
            mixed.append(textgen.pipe(ls, flags=flags, salt="s", words=words))
    mm, mi = ctx.correspond(mixed, project=lambda c, o: textgen.norm(o), label="words-with-secrets")
    for c, out in zip(mixed, mi):
        words = c[3][1:].split("\x01")
        if out.startswith("RAISED"):
            ctx.fail("processing raised", c[:11], out, label="impl")
            continue
        for l, o in zip(c[11:], textgen.outlines(out)):
            for tok in o.split():
                for w in words:
                    if w.lower() in tok.lower() and tok.lower() not in RESERVED:
                        ctx.fail("listed word %r survives in output token %r (secrets stage also on)" % (w, tok), {"line": l, "words": words, "flags": c[1]}, o, label="impl")
    # word lists outside the model's domain (whitespace inside a word): implementation only
    ph = textgen.pipe(["a sensitive phrase here\n", "Sensitive   Phrase\n"], flags="", words=["sensitive phrase"])
    for l, o in zip(ph[11:], textgen.outlines(vlib.run_impl([ph])[0])):
        if "sensitive phrase" in " ".join(o.lower().split()):
            ctx.fail("listed word 'sensitive phrase' survives", {"line": l, "words": ["sensitive phrase"]}, o, label="word-with-space")
    ctx.evaluations = sum(len(c) - 11 for c in cases) * (1 + len(seeds)) + 2
    ctx.distinct_nontrivial = nt
    ctx.search_stats = {"cases": len(cases), "hash_seeds": [0] + seeds, "lines_with_listed_word": nt}
    ctx.samples = [dict(textgen.sample(cases[0], i[0], 0), words=cases[0][3]), dict(textgen.sample(cases[3], i[3], 1), words=cases[3][3])]


def _reserved():
    import json, subprocess
    code = "import json,sys; sys.path.insert(0,'%s'); from netconan.default_reserved_words import default_reserved_words as d; print(json.dumps(sorted(d)))" % vlib.REPO
    return set(json.loads(subprocess.run([vlib.PY, "-c", code], capture_output=True, text=True).stdout))


RESERVED = _reserved()
