"""C11: AS numbers -- block preserving, whole-number only, keyed replacement."""
import hashlib
from . import linegen, textgen
from .textcommon import TEXT_MODEL_DEPS as MODEL_DEPS, TEXT_TRUSTED as TRUSTED_BASE, TEXT_ASSUMPTIONS as ASSUMPTIONS  # noqa

COQ_DEPS = ["lib/Str.v", "lib/Md5.v", "gen/G_as_num.v", "model/AsModel.v", "lib/Rx.v", "lib/RxFacts.v", "lib/RxSub.v", "gen/G_rx.v", "model/TextModel.v", "model/TextProofs.v", "lib/PyLib.v", "lib/PyHash.v", "gen/G_fn_sir.v", "refine/RefAs.v"]
RULE = ("_generate_as_number_replacement with the hash value FORCED to 0, size-1, size, size+1 and random values for every block boundary and its neighbours; "
        "lines with listed numbers standalone, next to punctuation, inside longer digit strings, next to Unicode digits, lists with numbers that are prefixes/suffixes of each other in both orders, many salts; "
        "oracle: independent digit-run scanner + block function + consistency of the replacement per (salt, number); non-trivial = distinct (line, list) with a listed numeral present")

BOUNDS = [0, 64512, 65536, 4200000000, 4294967296]
EDGE = sorted({max(0, b + d) for b in BOUNDS for d in (-2, -1, 0, 1)} | {1, 100, 65000, 70000, 4199999999, 4294967295})
LISTS = [["65001"], ["65001", "650010"], ["650010", "65001"], ["12", "123", "1234"], ["1234", "123", "12"], ["4567", "1234567"], ["64511", "64512", "65535", "65536"],
         ["4199999999", "4200000000", "4294967295", "0"], ["007", "7"], ["65000", "65000"], ["1"], ["23456", "3456"]]


def as_lines(rng, nums, n):
    lines = []
    for _ in range(n):
        items = []
        for _ in range(rng.randrange(1, 5)):
            k = rng.randrange(8)
            x = rng.choice(nums)
            if k == 0:
                tok = x
            elif k == 1:
                tok = rng.choice(["AS", "as-", "(", "[", ":", "=", "#", "_", "."]) + x + rng.choice(["", ")", "]", ":", ",", ".", ";", "_", "x"])
            elif k == 2:
                tok = rng.choice("0123456789") + x          # embedded in a longer number
            elif k == 3:
                tok = x + rng.choice("0123456789")
            elif k == 4:
                tok = x + "٣"                           # Arabic-Indic digit right after: part of a longer number
            elif k == 5:
                tok = x + "." + x + ":" + x
            elif k == 6:
                tok = rng.choice(linegen.ORDINARY)
            else:
                tok = str(rng.randrange(0, 2**32))
            items.append(tok)
        lines.append(linegen.mk_line(rng, items))
    return lines


def run(ctx):
    rng, q = ctx.rng, ctx.quick()
    # 1. the number map with the hash forced
    forced = []
    for a in EDGE + [rng.randrange(0, 2**32) for _ in range(20 if q else 500)] + [4294967296, 4294967297, 99999999999]:
        blk = linegen.as_block(a)
        size = BOUNDS[blk + 1] - BOUNDS[blk] if a < 4294967296 else 1
        for h in [0, 1, size - 1, size, size + 1, 2 * size - 1, 2**128 - 1] + [rng.getrandbits(128) for _ in range(3 if q else 20)]:
            forced.append(["asr", str(h), str(a)])
    m, i = ctx.correspond(forced, label="forced-hash")
    # the function GENERATED from the source (with its own MD5) against the real one: every block edge and random numbers, several salts
    gcases = [["gas", salt, str(a)] for salt in ("s", "", "sälz", "T5") for a in EDGE + [rng.randrange(0, 2**32) for _ in range(8 if q else 200)] + [4294967296, 99999999999]]
    ctx.correspond(gcases, label="generated-code")
    for c, out in zip(forced, i):
        a = int(c[2])
        if a > 4294967295:
            if out != "ValueError":
                ctx.fail("AS number %d outside 0..4294967295 was not rejected with ValueError" % a, c, out, "ValueError", label="impl")
            continue
        if not out.startswith("OK:") or not out[3:].isdigit():
            ctx.fail("replacement of AS %d with hash %s is not a number" % (a, c[1]), c, out, label="impl")
            continue
        r = int(out[3:])
        if linegen.as_block(r) != linegen.as_block(a) or r > 4294967295:
            ctx.fail("AS %d (block %d) with hash value %s is replaced by %d (block %d)" % (a, linegen.as_block(a), c[1], r, linegen.as_block(r)), c, out, label="impl")
    # 2. text
    cases = []
    for nums in LISTS + [[str(rng.choice([e for e in EDGE if e <= 4294967295])) for _ in range(3)] for _ in range(5 if q else 60)]:
        for salt in (["s", "", "é"] if q else ["s", "", "é", "salt437", "netconan", "0"]):
            cases.append(textgen.pipe(as_lines(rng, nums, 10), flags="", salt=salt, asnums=nums))
    # salts under which a number at the TOP of its block is its own image (a fixed point of the keyed mapping): anything that "moves on" from there leaves the block
    for top in (65535, 64511):
        blk = linegen.as_block(top)
        found = 0
        for k in range(200000):
            salt = "fp%d" % k
            if int(hashlib.md5((salt + str(top)).encode()).hexdigest(), 16) % (BOUNDS[blk + 1] - BOUNDS[blk]) + BOUNDS[blk] == top:
                cases.append(textgen.pipe(["router bgp %d\n" % top, " neighbor 10.0.0.1 remote-as %d\n" % top], flags="", salt=salt, asnums=[str(top)]))
                found += 1
                if found >= (1 if q else 3):
                    break
    m2, i2 = ctx.correspond(cases, project=lambda c, o: textgen.norm(o), label="as-text")
    nt = 0
    for c, out in zip(cases, i2):
        salt, nums, lines = c[2], c[4][1:].split("\x01"), c[11:]
        if out.startswith("RAISED"):
            ctx.fail("processing raised", c[:11], out, label="impl")
            continue
        repl = {}
        for l, o in zip(lines, textgen.outlines(out)):
            # expected: every maximal digit run equal to a listed numeral is replaced, everything else verbatim
            pos, pieces, ok = 0, [], True
            runs = linegen.digit_runs(l)
            # align: walk the output with the same non-digit text
            oi = 0
            for (a, b) in runs:
                gap = l[pos:a]
                if o[oi:oi + len(gap)] != gap:
                    ok = False
                    break
                oi += len(gap)
                tok = l[a:b]
                if tok in nums:
                    nt += 1
                    j = oi
                    while j < len(o) and o[j].isdecimal():
                        j += 1
                    r = o[oi:j]
                    if not r.isascii() or not r.isdigit() or linegen.as_block(int(r)) != linegen.as_block(int(tok)):
                        ctx.fail("standalone listed AS number %s replaced by %r: not a number of the same block" % (tok, r), {"line": l, "salt": salt, "list": nums}, o, label="impl")
                    if repl.setdefault(tok, r) != r:
                        ctx.fail("AS number %s received two different replacements under one salt" % tok, {"line": l, "salt": salt, "list": nums}, [repl[tok], r], label="impl")
                    oi = j
                else:
                    if o[oi:oi + len(tok)] != tok:
                        ok = False
                        break
                    oi += len(tok)
                pos = b
            if ok and o[oi:] != l[pos:]:
                ok = False
            if not ok:
                ctx.fail("text other than standalone listed AS numbers was changed (or a listed number was left)", {"line": l, "salt": salt, "list": nums}, o, label="impl")
        # keyed: the replacement is the documented function of salt and numeral (independent recomputation)
        for tok, r in repl.items():
            h = int(hashlib.md5((salt + tok).encode()).hexdigest(), 16)
            blk = linegen.as_block(int(tok))
            exp = str(h % (BOUNDS[blk + 1] - BOUNDS[blk]) + BOUNDS[blk])
            if r != exp:
                ctx.fail("replacement of AS %s under salt %r is %s; md5-keyed block mapping gives %s" % (tok, salt, r, exp), {"salt": salt, "number": tok}, r, exp, label="keyed")
    ctx.evaluations = len(forced) + sum(len(c) - 11 for c in cases)
    ctx.distinct_nontrivial = len(forced) + nt
    ctx.search_stats = {"forced_hash_cases": len(forced), "text_cases": len(cases), "listed_standalone_occurrences": nt}
    ctx.samples = [{"case": forced[0], "impl": i[0]}, dict(textgen.sample(cases[1], i2[1]), list=cases[1][4])]
