"""C08: secret pseudonyms are consistent and collision-free within a run."""
from . import secretlib, textgen
from .textcommon import TEXT_MODEL_DEPS as MODEL_DEPS, TEXT_TRUSTED as TRUSTED_BASE, TEXT_ASSUMPTIONS as ASSUMPTIONS  # noqa

COQ_DEPS = ["lib/Alloc.v", "lib/Str.v", "lib/Rx.v", "lib/RxFacts.v", "lib/RxSub.v", "gen/G_rx.v", "gen/G_text_consts.v", "model/TextModel.v", "model/JunModel.v", "model/JunProofs.v", "model/TextProofs.v", "model/ValueProofs.v", "model/Findings.v"]
RULE = ("runs of 5-40 (quick) / 5-300 (thorough) secret-bearing lines over a small pool of secrets of all classes so that repetitions occur, with quoting/enclosing variants, different line forms, other secrets in between, and "
        "$9$ re-encodings of one plaintext under different salt characters (also the clear text itself); replacements read back by position; oracle: equal secrets <-> equal replacement cores; non-trivial = a run with a repeated secret")


KEYLESS = ["apply-macro vault token {}", "trusted-value {}", "foo bar {} baz", "remark old={} new"]


def run(ctx):
    rng, q = ctx.rng, ctx.quick()
    cases, metas = [], []
    tpls = [(t, s) for t, s in secretlib.SINGLE if '"' not in t]
    for _ in range(25 if q else 300):
        pool = []
        for cls in rng.sample(textgen.CLASSES, rng.randrange(2, 6)):
            pool.append(textgen.make_secret(rng, cls))
        plains = ["".join(rng.choice("abcXYZ129!#") for _ in range(rng.choice([3, 8, 10]))) for _ in range(2)]
        if rng.random() < 0.6:         # plaintexts that differ only by quote/bracket/terminator characters at their ends
            stem = plains[0]
            plains += [stem + rng.choice(";,}]\"'"), rng.choice("{[\"'") + stem, '"' + stem + '"']
        if rng.random() < 0.5:         # plaintexts that are not of class text: all digits, hexadecimal, type-7 shaped
            plains += [str(rng.randrange(1000, 10 ** 8)), "".join(rng.choice("0123456789abcdef") for _ in range(10)) + "f", textgen.make_secret(rng, "type7", 4)]
        if rng.random() < 0.4:         # values that look like the pseudonyms this run hands out
            pool += ["netconanRemoved%d" % rng.randrange(0, 4) for _ in range(2)]
        for p in plains:
            if rng.random() < 0.4:     # a cut-off / corrupted copy: a valid encoding followed by stray alphabet characters is a DIFFERENT secret
                for extra in (1, 2):
                    t = textgen.ref_encrypt9(p, rng.choice(textgen.ALPHA9)) + "".join(rng.choice(textgen.ALPHA9) for _ in range(extra))
                    if textgen.ref_decrypt9(t) is None:
                        pool.append(t)
            for _ in range(2):
                pool.append(textgen.ref_encrypt9(p, rng.choice(textgen.ALPHA9)))
            if rng.random() < 0.5 and p[0] not in "{[\"'" and p[-1] not in ";,}]\"'":
                pool.append(p)                       # the clear text itself counts as the same secret (enclosing characters are not part of a clear-text secret)
        n = rng.randrange(5, 40 if q else 300)
        lines, ms = [], []
        for _ in range(n):
            tpl, _s = rng.choice(tpls)
            s = rng.choice(pool)
            if "community-map" in tpl and ":" in s:      # in this line form the community name ends at the first ':' (name:index)
                tpl = "snmp-server community {} RO"
            if s.startswith(("$9$", "$1$")) and rng.random() < 0.35:
                tpl = rng.choice(KEYLESS)          # a line no keyword pattern recognises: only the hash-shaped catch-all applies
            enc = rng.choice(secretlib.ENCLOSE) if rng.random() < 0.4 else ("", "")
            lines.append(secretlib.build(tpl, s, rng.choice(["", " ", "  "]), "", enc))
            ms.append((tpl, s, enc))
        cases.append(textgen.pipe(lines, flags="p", salt=rng.choice(["s", "Q", "_x", "", "B"])))
        metas.append(ms)
    meta_of = {id(c): ms for c, ms in zip(cases, metas)}

    def project(c, o):
        """equality pattern of the replacement cores read back by position (which lines share a replacement), not the replacement text"""
        if o.startswith("RAISED"):
            return "RAISED"
        cores = []
        for l, ol, (tpl, s, enc) in zip(c[11:], textgen.outlines(o), meta_of[id(c)]):
            st, repl = secretlib.read_back(tpl, ol, enc)
            cores.append(secretlib.core(repl)[1] if st == "ok" and repl != s else (st, repl == s))
        return [[a == b for b in cores[:k]] for k, a in enumerate(cores)]
    m, i = ctx.correspond(cases, project=project, label="runs")
    nt = 0
    for c, out, ms in zip(cases, i, metas):
        if out.startswith("RAISED"):
            ctx.fail("processing raised", c[:11], out, label="raised")
            continue
        seen = {}        # secret key -> (core, line)
        by_core = {}     # core -> secret key
        keys = []
        for l, o, (tpl, s, enc) in zip(c[11:], textgen.outlines(out), ms):
            st, repl = secretlib.read_back(tpl, o, enc)
            if st != "ok" or (repl == s and not s.startswith("netconanRemoved")):
                continue
            k = secretlib.secret_key(s)
            keys.append(k)
            cr = secretlib.core(repl)[1]
            if k in seen and seen[k][0] != cr:
                ctx.fail("the same secret received two different replacements within one run", {"secret": s, "first_line": seen[k][1], "line": l, "salt": c[2]}, [seen[k][0], cr], label="impl")
            if cr in by_core and by_core[cr] != k:
                ctx.fail("two different secrets received the same replacement within one run", {"secrets": [by_core[cr], k], "line": l, "salt": c[2]}, cr, label="impl")
            seen.setdefault(k, (cr, l))
            by_core.setdefault(cr, k)
        if len(keys) != len(set(keys)):
            nt += 1
    # two secrets on one line under one pattern (implementation only; the model agrees with the code here by construction)
    import vlib
    two = textgen.pipe(["password foo1secret then password level 3 bar2secret\n"], flags="p")
    o2 = textgen.outlines(vlib.run_impl([two])[0])[0]
    toks = [t for t in o2.split() if t.startswith("netconanRemoved")]
    if len(toks) == 2 and toks[0] == toks[1]:
        ctx.fail("two different secrets on one line received the same replacement", {"line": two[11]}, o2, label="two-matches-one-line")
    ctx.evaluations = sum(len(c) - 11 for c in cases) + 1
    ctx.distinct_nontrivial = nt
    ctx.search_stats = {"runs": len(cases), "lines": ctx.evaluations, "runs_with_repeated_secret": nt}
    ctx.samples = [{"lines": cases[0][11:14], "impl": textgen.outlines(i[0])[:3]}]
