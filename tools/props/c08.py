"""C08: secret pseudonyms are consistent and collision-free within a run."""
from . import secretlib, textgen
from .textcommon import TEXT_MODEL_DEPS as MODEL_DEPS, TEXT_TRUSTED as TRUSTED_BASE, TEXT_ASSUMPTIONS as ASSUMPTIONS  # noqa

COQ_DEPS = ["lib/Alloc.v", "lib/Str.v", "lib/Rx.v", "lib/RxFacts.v", "lib/RxSub.v", "gen/G_rx.v", "gen/G_text_consts.v", "model/TextModel.v", "model/JunModel.v", "model/JunProofs.v", "model/TextProofs.v", "model/ValueProofs.v", "model/Findings.v"]
RULE = ("runs of 5-40 (quick) / 5-300 (thorough) secret-bearing lines over a small pool of secrets of all classes so that repetitions occur, with quoting/enclosing variants, different line forms, other secrets in between, and "
        "$9$ re-encodings of one plaintext under different salt characters (also the clear text itself); replacements read back by position; oracle: equal secrets <-> equal replacement cores; non-trivial = a run with a repeated secret")


KEYLESS = ["apply-macro vault token {}", "trusted-value {}", "foo bar {} baz", "remark old={} new"]


def run(ctx):
    rng, q = ctx.rng, ctx.quick()
    cases, metas = [], []
    tpls = [(t, s) for t, s in secretlib.SINGLE if '"' not in t]
    for _ in range(25 if q else 300):
        pool = []
        for cls in rng.sample(textgen.CLASSES, rng.randrange(2, 6)):
            pool.append(textgen.make_secret(rng, cls))
        plains = ["".join(rng.choice("abcXYZ129!#") for _ in range(rng.choice([3, 8, 10]))) for _ in range(2)]
        if rng.random() < 0.6:         # plaintexts that differ only by quote/bracket/terminator characters at their ends
            stem = plains[0]
            plains += [stem + rng.choice(";,}]\"'"), rng.choice("{[\"'") + stem, '"' + stem + '"']
        if rng.random() < 0.5:         # plaintexts that are not of class text: all digits, hexadecimal, type-7 shaped
            plains += [str(rng.randrange(1000, 10 ** 8)), "".join(rng.choice("0123456789abcdef") for _ in range(10)) + "f", textgen.make_secret(rng, "type7", 4)]
        if rng.random() < 0.4:         # values that look like the pseudonyms this run hands out
            pool += ["netconanRemoved%d" % rng.randrange(0, 4) for _ in range(2)]
        for p in plains:
            if rng.random() < 0.4:     # a cut-off / corrupted copy: a valid encoding followed by stray alphabet characters is a DIFFERENT secret
                for extra in (1, 2):
                    t = textgen.ref_encrypt9(p, rng.choice(textgen.ALPHA9)) + "".join(rng.choice(textgen.ALPHA9) for _ in range(extra))
                    if textgen.ref_decrypt9(t) is None:
                        pool.append(t)
            for _ in range(2):
                pool.append(textgen.ref_encrypt9(p, rng.choice(textgen.ALPHA9)))
            if rng.random() < 0.5 and p[0] not in "{[\"'" and p[-1] not in ";,}]\"'":
                pool.append(p)                       # the clear text itself counts as the same secret (enclosing characters are not part of a clear-text secret)
        n = rng.randrange(5, 40 if q else 300)
        lines, ms = [], []
        for _ in range(n):
            tpl, _s = rng.choice(tpls)
            s = rng.choice(pool)
            if "community-map" in tpl and ":" in s:      # in this line form the community name ends at the first ':' (name:index)
                tpl = "snmp-server community {} RO"
            if s.startswith(("$9$", "$1$")) and rng.random() < 0.35:
                tpl = rng.choice(KEYLESS)          # a line no keyword pattern recognises: only the hash-shaped catch-all applies
            enc = rng.choice(secretlib.ENCLOSE) if rng.random() < 0.4 else ("", "")
            lines.append(secretlib.build(tpl, s, rng.choice(["", " ", "  "]), "", enc))
            ms.append((tpl, s, enc))
        cases.append(textgen.pipe(lines, flags="p", salt=rng.choice(["s", "Q", "_x", "", "B"])))
        metas.append(ms)
    meta_of = {id(c): ms for c, ms in zip(cases, metas)}

    def project(c, o):
        """equality pattern of the replacement cores read back by position (which lines share a replacement), not the replacement text"""
        if o.startswith("RAISED"):
            return "RAISED"
        cores = []
        for l, ol, (tpl, s, enc) in zip(c[11:], textgen.outlines(o), meta_of[id(c)]):
            st, repl = secretlib.read_back(tpl, ol, enc)
            cores.append(secretlib.core(repl)[1] if st == "ok" and repl != s else (st, repl == s))
        return [[a == b for b in cores[:k]] for k, a in enumerate(cores)]
    m, i = ctx.correspond(cases, project=project, label="runs")
    nt = 0
    for c, out, ms in zip(cases, i, metas):
        if out.startswith("RAISED"):
            ctx.fail("processing raised", c[:11], out, label="raised")
            continue
        seen = {}        # secret key -> (core, line)
        by_core = {}     # core -> secret key
        keys = []
        for l, o, (tpl, s, enc) in zip(c[11:], textgen.outlines(out), ms):
            st, repl = secretlib.read_back(tpl, o, enc)
            if st != "ok" or (repl == s and not s.startswith("netconanRemoved")):
                continue
            k = secretlib.secret_key(s)
            keys.append(k)
            cr = secretlib.core(repl)[1]
            if k in seen and seen[k][0] != cr:
                ctx.fail("the same secret received two different replacements within one run", {"secret": s, "first_line": seen[k][1], "line": l, "salt": c[2]}, [seen[k][0], cr], label="impl")
            if cr in by_core and by_core[cr] != k:
                ctx.fail("two different secrets received the same replacement within one run", {"secrets": [by_core[cr], k], "line": l, "salt": c[2]}, cr, label="impl")
            seen.setdefault(k, (cr, l))
            by_core.setdefault(cr, k)
        if len(keys) != len(set(keys)):
            nt += 1
    # two secrets on one line under one pattern (implementation only; the model agrees with the code here by construction)
    import vlib
    two = textgen.pipe(["password foo1secret then password level 3 bar2secret\n"], flags="p")
    o2 = textgen.outlines(vlib.run_impl([two])[0])[0]
    toks = [t for t in o2.split() if t.startswith("netconanRemoved")]
    if len(toks) == 2 and toks[0] == toks[1]:
        ctx.fail("two different secrets on one line received the same replacement", {"line": two[11]}, o2, label="two-matches-one-line")
    n_multi = across_files(ctx, rng, q)
    ctx.evaluations = sum(len(c) - 11 for c in cases) + 1 + n_multi
    ctx.distinct_nontrivial = nt
    ctx.search_stats = {"runs": len(cases), "lines": ctx.evaluations, "runs_with_repeated_secret": nt}
    ctx.samples = [{"lines": cases[0][11:14], "impl": textgen.outlines(i[0])[:3]}]


def across_files(ctx, rng, q):
    """"within one run": a run over a directory is ONE run -- the same secret in two files must receive the same replacement, different secrets in
    different files different ones ($9$ strings compared by their plaintext); through anonymize_files, the command line, and several buffers
    handed to one FileAnonymizer"""
    import base64
    import json
    import vlib
    runs, metas = [], []
    for _ in range(3 if q else 25):
        secrets = [textgen.make_secret(rng, cls) for cls in rng.sample(["text", "text", "numeric", "hex", "type7", "md5"], 4)]
        plain = "".join(rng.choice("abcXYZ129") for _ in range(8))
        nine = [textgen.ref_encrypt9(plain, rng.choice(textgen.ALPHA9)) for _ in range(2)]
        names = ["a.cfg", "b.cfg", "sub/c.cfg"]
        files = {nm: [] for nm in names}
        # every secret occurs in at least two files; each file starts with a secret no other file starts with
        order = {"a.cfg": [secrets[0], secrets[1], nine[0], secrets[2]], "b.cfg": [secrets[1], secrets[3], secrets[0], nine[1]], "sub/c.cfg": [secrets[2], nine[1], secrets[3], secrets[0]]}
        for nm in names:
            for sec in order[nm]:
                files[nm].append(sec)
        tree = [[nm, base64.b64encode("".join("snmp-server community %s RO\n" % x if not x.startswith("$9$") else "set system login user u authentication encrypted-password \"%s\";\n" % x for x in xs).encode()).decode(), {}]
                for nm, xs in files.items()]
        opts = {"pwd": True, "salt": rng.choice(["s", "Q", ""])}
        for mode in ("api", "main", "io"):
            runs.append(["files", mode, json.dumps(opts), json.dumps(tree)])
            metas.append((files, mode))
    n = 0
    for c, out, (files, mode) in zip(runs, vlib.run_impl(runs), metas):
        try:
            r = json.loads(out)
            seen, by_core = {}, {}
            for nm, xs in files.items():
                ols = r["out"][nm].splitlines()
                for sec, ol in zip(xs, ols):
                    n += 1
                    toks = ol.replace('"', " ").replace(";", " ").split()
                    repl = toks[2] if ol.startswith("snmp-server") else toks[-1]
                    k = secretlib.secret_key(sec)
                    cr = secretlib.core(repl)[1]
                    if k in seen and seen[k][0] != cr:
                        ctx.fail("the same secret received two different replacements within one run over several files (%s)" % mode,
                                 {"secret": sec, "first_file": seen[k][1], "file": nm, "mode": mode}, [seen[k][0], cr], label="impl-files")
                    if cr in by_core and by_core[cr] != k:
                        ctx.fail("two different secrets received the same replacement within one run over several files (%s)" % mode,
                                 {"secrets": [by_core[cr], k], "file": nm, "mode": mode}, cr, label="impl-files")
                    seen.setdefault(k, (cr, nm))
                    by_core.setdefault(cr, k)
        except Exception as e:
            ctx.fail("multi-file run did not produce readable output (%s): %s" % (mode, e), c[:3], out[:300], label="impl-files")
    return n
