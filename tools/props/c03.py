"""C03: the mapping is a pure function of salt and options, not of history."""
import itertools
from . import ipgen
from .ipcommon import MODEL_DEPS, TRUSTED_BASE, ASSUMPTIONS  # noqa

COQ_DEPS = ["lib/PPCore.v", "lib/PPHost.v", "lib/Memo.v", "lib/MemoProofs.v", "lib/PyLib.v", "gen/G_fn_ip.v", "refine/RefIpCommon.v", "refine/RefAnon.v", "refine/RefDeanon.v"]
RULE = ("request histories mixing anonymize and undo with repeats: exhaustive up to length 3 (4 thorough) at width 3 for every B under random flip tables; "
        "random histories at widths 4-6, 32 and 128; every answer compared with the cache-free reference; non-trivial = a history with both directions")


def run(ctx):
    rng, q = ctx.rng, ctx.quick()
    cases = []
    L = 3 if q else 4
    reqs = [d + str(x) for d in "ad" for x in range(8)]
    for B in range(0, 4):
        sal = ipgen.tab_salter(rng, 3)
        for hist in itertools.product(reqs, repeat=L):
            if q and rng.random() > 0.25:
                continue
            cases.append(["base", "3", str(B), sal, " ".join(hist)])
    cases += ipgen.small_cases(rng, 3 if q else 20, widths=(4, 5, 6), dirs="ad")
    # width 32: histories built around cache hits -- repeats, undo of an earlier image, re-anonymization of an
    # earlier pre-image, addresses sharing long prefixes (partial hits); images obtained from a first pass
    import vlib as _v
    seeds = [ipgen.ip4_case(rng, dirs="ad", n_addr=8) for _ in range(40 if q else 1000)]
    seeds += [ipgen.ip6_case(rng, dirs="ad", n_addr=2) for _ in range(6 if q else 150)]
    first = _v.run_impl(seeds)
    for c, out in zip(seeds, first):
        ops, res = ipgen.ops_of(c), out.split(" ")
        if len(ops) != len(res) or not all(r.isdigit() for r in res):
            cases.append(c)
            continue
        inv = [("d" if o[0] == "a" else "a") + r for o, r in zip(ops, res)]     # the request that a cache hit would answer
        hist = list(ops)
        for o, v in zip(ops, inv):
            hist.insert(rng.randrange(len(hist) + 1), v)
        hist += [rng.choice(hist) for _ in range(4)]
        if rng.random() < 0.5:
            rng.shuffle(hist)
        cases.append(c[:-1] + [" ".join(hist)])
    # the reference for "history-free": the SAME side's answer to the request alone on a fresh instance
    import vlib
    singles, index = [], {}
    for c in cases:
        for op in set(ipgen.ops_of(c)):
            key = tuple(c[:-1]) + (op,)
            if key not in index:
                index[key] = len(singles)
                singles.append(c[:-1] + [op])
    fresh_impl = vlib.run_impl(singles)
    fresh_model = vlib.run_model(singles) if ctx.model_ok else None

    def mk_project(fresh):
        def project(c, out):
            """per request: does the answer inside the history equal the answer of a fresh instance asked only that request"""
            ops, res = ipgen.ops_of(c), out.split(" ")
            if len(ops) != len(res):
                return "ERR"
            return [res[k] == fresh[index[tuple(c[:-1]) + (ops[k],)]] and res[k].isdigit() for k in range(len(ops))]
        return project
    pi = mk_project(fresh_impl)
    if ctx.model_ok:
        m = vlib.run_model(cases)
        i = vlib.run_impl(cases)
        pm = mk_project(fresh_model)
        nd = drift = 0
        for c, mo, io in zip(cases, m, i):
            if pm(c, mo) != pi(c, io):
                nd += 1
                if len(ctx.disagreements) < 20:
                    ctx.disagreements.append({"case": c, "model": mo[:1000], "impl": io[:1000], "label": "histories"})
            elif mo != io:
                drift += 1
        ctx.corr_stats.update({"cases": len(cases) + len(singles), "disagreements": nd, "raw_output_drift": drift,
                               "projection": "per request: answer within the history == answer of a fresh instance (same side)"})
    else:
        i = vlib.run_impl(cases)
    nontriv = 0
    for c, out in zip(cases, i):
        ops = ipgen.ops_of(c)
        pr = pi(c, out)
        if pr == "ERR" or not all(pr):
            got = out.split(" ")
            k = pr.index(False) if pr != "ERR" else 0
            ctx.fail("request %d of the history (%s) answered %s; the same request on a fresh instance answers %s" % (
                k, ops[k], got[k] if k < len(got) else "?", fresh_impl[index[tuple(c[:-1]) + (ops[k],)]]),
                c[:-1] + [" ".join(ops[: k + 1])], out[:300], label="impl")
        if len({o[0] for o in ops}) == 2:
            nontriv += 1
    # long single-instance histories (implementation only): late answers vs a fresh instance
    # (the second history pushes the memo past a million entries: 32 prefixes per address when no host bits are kept)
    longs = [ipgen.long_history(rng, n, B=B, pfx="D") for n, B in ((16000 if q else 60000, 8), (70000 if q else 120000, 0))]
    lo = vlib.run_impl(longs, jobs=2)
    probes = []
    for c, out in zip(longs, lo):
        ops, res = ipgen.ops_of(c), out.split(" ")
        if len(ops) != len(res):
            ctx.fail("request raised in a long history", c[:-1] + ["<%d requests>" % len(ops)], out[:200], label="impl-long")
            continue
        ks = list(range(len(ops) - 260, len(ops), 4))
        probes.append((c, ops, res, ks, vlib.run_impl([c[:-1] + [" ".join(ops[k] for k in ks)]])[0].split(" ")))
    for c, ops, res, ks, fresh in probes:
        for k, f in zip(ks, fresh):
            if res[k] != f:
                ctx.fail("after %d earlier requests %s is answered %s; a fresh instance answers %s" % (k, ops[k], res[k], f),
                         c[:-1] + ["<%d distinct addresses first> %s" % (k, ops[k])], res[k], f, label="impl-long")
                break
    n_extra = text_histories(ctx, rng) + process_histories(ctx, rng)
    ctx.evaluations = len(cases) + len(longs) + n_extra
    ctx.distinct_nontrivial = nontriv
    ctx.search_stats = {"histories": len(cases), "requests": sum(len(ipgen.ops_of(c)) for c in cases), "long_histories": [len(ipgen.ops_of(c)) for c in longs]}
    ctx.samples = [{"case": cases[0], "impl": i[0]}, {"case": cases[-1], "impl": i[-1]}]


def text_histories(ctx, rng):
    """one anonymizer object, requests at TEXT level (anonymize_ip_addr) in both directions, the same text asked in both directions,
    undo of earlier answers, repeats; every answer must equal that of a fresh object in a fresh process asked only that request"""
    import ipaddress
    import vlib
    from . import linegen
    n = 0
    for fam, B in (("4", 8), ("4", 0), ("6", 8)):
        pool = [l.rstrip("\r\n") for l in linegen.ip_lines(rng, 6, families=fam, near=False, masks=(fam == "4"))]
        hdr = ["iphist", fam, str(B), rng.choice(["s", "T5", ""]), "D", "-"]
        first = vlib.run_impl([hdr + ["a" + l for l in pool]])[0].split("\x03")
        imgs = [x for x in first if not x.startswith("RAISED")]
        steps = []
        for l in pool:
            steps += ["a" + l, "u" + l]                 # the same text in both directions
        steps += ["u" + x for x in imgs] + ["a" + x for x in imgs[:3]]
        rng.shuffle(steps)
        steps += [rng.choice(steps) for _ in range(6)]
        got = vlib.run_impl([hdr + steps])[0].split("\x03")
        distinct = sorted(set(steps))
        fresh = dict(zip(distinct, vlib.run_impl_fresh([hdr + [st] for st in distinct])))
        n += len(steps)
        if len(got) != len(steps):
            ctx.fail("text-level history did not answer every request", hdr + steps, got[:3], label="impl-text-history")
            continue
        for k, (st, g) in enumerate(zip(steps, got)):
            if g != fresh[st]:
                ctx.fail("text-level request %d (%s %r) answered %r inside the history; a fresh anonymizer answers %r" % (
                    k, "undo" if st[0] == "u" else "anonymize", st[1:], g, fresh[st]), hdr + steps[: k + 1], g, fresh[st], label="impl-text-history")
                break
    return n


def process_histories(ctx, rng):
    """several runs one after the other in ONE interpreter process (same salt with other preservation options, other salts on the same
    text, other address family), earlier objects kept alive or garbage collected: each run must equal the same run in a process of its own"""
    import json
    import vlib
    from . import textgen
    lines = ["interface Gi0/1\n", " ip address 10.1.2.3 255.255.255.0\n", " neighbor 192.168.7.9 remote-as 65001\n", "ntp server 172.16.5.4\n",
             "ip route 8.8.4.0 255.255.255.0 203.0.113.9\n", "ipv6 address 2001:db8:17::5/64\n", "logging host 11.22.33.44\n", "permit ip host 150.3.2.1 any\n"]
    runs = [textgen.pipe(lines, flags="a", salt="s"),
            textgen.pipe(lines, flags="a", salt="s", nets="P"),
            textgen.pipe(lines, flags="a", salt="s", pfx="%d/8" % (11 << 24)),
            textgen.pipe(lines, flags="a", salt="other"),
            textgen.pipe(lines, flags="a", salt="s", b4=0, b6=0),
            textgen.pipe(lines[5:6] * 2, flags="a", salt="zz"),
            textgen.pipe(lines, flags="a", salt="zz"),
            textgen.pipe(lines, flags="au", salt="s"),
            textgen.pipe(lines, flags="a", salt="s", nets="%d/16" % ((150 << 24) + (3 << 16)))]
    fresh = vlib.run_impl_fresh(runs)
    n = 0
    for mode in ("keep", "drop"):
        for order in range(3):
            idx = list(range(len(runs)))
            if order:
                rng.shuffle(idx)
            got = vlib.run_impl([["seq", mode, json.dumps([runs[k] for k in idx])]])[0].split("\x07")
            n += len(idx)
            for pos, (k, g) in enumerate(zip(idx, got)):
                if g != fresh[k]:
                    ctx.fail("run %d of a sequence of runs in one process (earlier objects %s) differs from the same run in a process of its own" % (
                        pos, "kept alive" if mode == "keep" else "garbage collected"),
                        {"mode": mode, "runs": [runs[j][:11] for j in idx[: pos + 1]], "lines": lines}, g[:400], fresh[k][:400], label="impl-process-history")
                    break
    return n
