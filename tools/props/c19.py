"""C19: command-line contract -- validation, precedence and option equivalences."""
import vlib

COQ_DEPS = ["lib/Str.v", "gen/G_cli_consts.v", "model/CliModel.v", "lib/PyLib.v", "gen/G_fn_cli.v", "refine/RefCli.v"]
MODEL_DEPS = ["lib/Str.v", "gen/G_cli_consts.v", "model/CliModel.v"] + ["model/DriverCli.v", "model/Driver.v", "model/Extract.v"]
TRUSTED_BASE = [
    "Coq 8.16.1 kernel; vm_compute for the facts about generated constants",
    "axioms: none",
    "gen/G_cli_consts.v: argparse defaults obtained by calling the real _parse_args, DEFAULT_PRESERVED_PREFIXES / RFC_1918_NETWORKS as text",
    "hand-written model model/CliModel.v of netconan.main on the record of parsed arguments, tied by this check: the real main() runs with anonymize_files replaced by a recorder that resolves "
    "positional arguments against the callee's signature, and the recorded call is compared with the model's",
    "argparse / configargparse are not modelled: precedence, required arguments and the host-bits range are checked on the implementation only (search stage)",
]
ASSUMPTIONS = ["argument parsing is the library's; the model starts from the parsed argument record"]
RULE = ("argument records over every option (each on/off, list-valued options with 0-3 items incl. empty items), rendered as argv in three ways: command line only, config file only, both with conflicting "
        "config values (command line must win); plus invalid combinations, missing -i/-o, host bits -1, 33, 32, 0, non-numeric; oracle: model's call record / rejection, equality of the three renderings; "
        "non-trivial = a distinct argument record")

LONG = {"a": "anonymize-ips", "p": "anonymize-passwords", "u": "undo", "P": "preserve-private-addresses"}
OPT = {"salt": ("-s", "salt"), "dump": ("-d", "dump-ip-map"), "asnums": ("-n", "as-numbers"), "reserved": ("-r", "reserved-words"), "words": ("-w", "sensitive-words"),
       "prefixes": ("--preserve-prefixes", "preserve-prefixes"), "addresses": ("--preserve-addresses", "preserve-addresses")}
VALS = {"salt": ["s", "abc123", "Salt_9", "x-y"], "dump": ["map.txt", "/tmp/nv_dump_never_written"], "asnums": ["65001", "65001,65002", "1,22,333"], "reserved": ["foo", "foo,Bar"],
        "words": ["sea", "sea,seattle", "a,b,c"], "prefixes": ["10.0.0.0/8", "10.0.0.0/8,192.168.0.0/16", "0.0.0.0/0"], "addresses": ["1.2.3.4", "11.0.0.0/8,1.2.3.4/32", "10.1.0.0/16", "192.168.5.5,172.20.0.0/16", "10.0.0.0/8"]}


def rand_record(rng, valid=None):
    r = {"input": "in_dir", "output": "out_dir", "flags": "".join(f for f in "apuP" if rng.random() < 0.4), "hostbits": None if rng.random() < 0.5 else rng.choice([0, 1, 8, 12, 24, 32])}
    for k in OPT:
        r[k] = rng.choice(VALS[k]) if rng.random() < 0.4 else None
    return r


def model_case(r):
    def o(v):
        return "N" if v is None else "L" + v
    pfx = r["prefixes"]
    return ["mainm", r["input"], r["output"], r["flags"], o(r["salt"]), o(r["dump"]), o(r["asnums"]), o(r["reserved"]), o(r["words"]),
            "L" + (pfx if pfx is not None else "0.0.0.0/1,128.0.0.0/2,192.0.0.0/3,224.0.0.0/4,10.0.0.0/8,172.16.0.0/12,192.168.0.0/16"), o(r["addresses"]),
            str(8 if r["hostbits"] is None else r["hostbits"])]


def argv_cli(r):
    a = ["-i", r["input"], "-o", r["output"]]
    for f in r["flags"]:
        a.append("--" + LONG[f] if f == "P" else "-" + f)
    for k, (short, _) in OPT.items():
        if r[k] is not None:
            a += [short, r[k]]
    if r["hostbits"] is not None:
        a += ["--preserve-host-bits", str(r["hostbits"])]
    return a, "-"


def cfg_text(r):
    lines = ["input=%s" % r["input"], "output=%s" % r["output"]]
    for f in r["flags"]:
        lines.append("%s=true" % LONG[f])
    for k, (_, long) in OPT.items():
        if r[k] is not None:
            lines.append("%s=%s" % (long, r[k]))
    if r["hostbits"] is not None:
        lines.append("preserve-host-bits=%d" % r["hostbits"])
    return "\n".join(lines) + "\n"


def argv_cfg(r):
    return ["-c", "@CFG@"], cfg_text(r)


def argv_both(rng, r):
    """config file holds OTHER values for every valued option; the command line must win"""
    other = dict(r)
    for k in OPT:
        if r[k] is not None:
            other[k] = rng.choice([v for v in VALS[k] if v != r[k]])
    other["flags"] = ""             # store_true flags cannot be switched off from the command line: leave them to the command line
    other["input"], other["output"] = "cfg_in", "cfg_out"
    if r["hostbits"] is not None:
        other["hostbits"] = (r["hostbits"] + 3) % 33
    a, _ = argv_cli(r)
    return ["-c", "@CFG@"] + a, cfg_text(other)


def run(ctx):
    rng, q = ctx.rng, ctx.quick()
    S = "\x01"
    recs = [rand_record(rng) for _ in range(150 if q else 3000)]
    # targeted: every invalid combination and the nothing-enabled case
    base = dict(input="i", output="o", flags="", hostbits=None, **{k: None for k in OPT})
    for fl, extra in [("u", {}), ("ua", {"salt": "s"}), ("u", {"salt": "s"}), ("", {"dump": "m.txt"}), ("p", {"dump": "m.txt"}), ("a", {"dump": "m.txt"}), ("", {}), ("", {"reserved": "x"}),
                      ("", {"asnums": ""}), ("", {"words": ""}), ("P", {}), ("aP", {"addresses": "1.2.3.4"}), ("aP", {}), ("aP", {"addresses": "10.1.0.0/16"}), ("aP", {"addresses": "192.168.5.5,8.8.8.8"}), ("uP", {"salt": "s"}), ("uP", {"salt": "s", "addresses": "172.16.1.0/24"}), ("", {"salt": "s", "prefixes": "10.0.0.0/8"})]:
        r = dict(base, flags=fl)
        r.update(extra)
        recs.append(r)
    mcases = [model_case(r) for r in recs]
    icases = [["main", S.join(argv_cli(r)[0]), "-"] for r in recs]
    mo = vlib.run_model(mcases) if ctx.model_ok else [None] * len(recs)
    io_ = vlib.run_impl(icases)
    nd = 0
    for r, a, b in zip(recs, mo, io_):
        if a is not None and a != b:
            nd += 1
            if len(ctx.disagreements) < 20:
                ctx.disagreements.append({"case": r, "model": a, "impl": b, "label": "main"})
    ctx.corr_stats.update({"cases": len(recs), "disagreements": nd, "projection": "identity: the recorded anonymize_files call (all arguments by name) or the rejection"})
    # search: the three renderings agree; rejections happen before any call; host bits range; required arguments
    variants = []
    for r in recs:
        a1, c1 = argv_cfg(r)
        a2, c2 = argv_both(rng, r)
        variants.append(["main", S.join(a1), c1])
        variants.append(["main", S.join(a2), c2])
    vo = vlib.run_impl(variants)
    for k, r in enumerate(recs):
        cli, cfg, both = io_[k], vo[2 * k], vo[2 * k + 1]
        if cli != cfg:
            ctx.fail("the same options give a different result from a config file than from the command line", {"record": r, "config": variants[2 * k][2]}, {"cli": cli, "config": cfg}, label="impl")
        if cli != both:
            ctx.fail("command-line values do not override conflicting config-file values", {"record": r, "argv": variants[2 * k + 1][1].split(S), "config": variants[2 * k + 1][2]}, {"cli": cli, "both": both}, label="impl")
        fl = r["flags"]
        invalid = ("u" in fl and "a" in fl) or ("u" in fl and r["salt"] is None) or (r["dump"] is not None and "a" not in fl)
        if invalid and not cli.startswith("RAISED:ValueError"):
            ctx.fail("an invalid option combination was not rejected before anonymize_files was called", r, cli, "RAISED:ValueError", label="impl")
        nothing = not (("a" in fl) or ("p" in fl) or ("u" in fl) or r["asnums"] is not None or r["words"] is not None)
        if not invalid and nothing and cli != "NOCALL":
            ctx.fail("no anonymization option is on but anonymize_files was called", r, cli, "NOCALL", label="impl")
        if cli.startswith("CALL"):
            hb = 8 if r["hostbits"] is None else r["hostbits"]
            if "preserve_suffix_v4=%d " % hb not in cli or "preserve_suffix_v6=%d " % hb not in cli:
                ctx.fail("host bits (given %s, default 8) do not reach both address families" % r["hostbits"], r, cli, label="impl")
            if r["prefixes"] is None and "preserve_prefixes=[0.0.0.0/1,128.0.0.0/2,192.0.0.0/3,224.0.0.0/4,10.0.0.0/8,172.16.0.0/12,192.168.0.0/16]" not in cli:
                ctx.fail("default preserved prefixes are not the class and private prefixes", r, cli, label="impl")
            if "P" in fl:
                want = ((r["addresses"].split(",") if r["addresses"] else []) + ["10.0.0.0/8", "172.16.0.0/12", "192.168.0.0/16"])
                r2 = dict(r, flags=fl.replace("P", ""), addresses=",".join(want))
                eq = vlib.run_impl([["main", S.join(argv_cli(r2)[0]), "-"]])[0]
                if eq != cli:
                    ctx.fail("--preserve-private-addresses differs from listing the three RFC 1918 networks", r, cli, eq, label="impl")
    edge = []
    for hb, ok in [("-1", False), ("33", False), ("32", True), ("0", True), ("x", False), ("8.5", False), ("100", False)]:
        edge.append((["main", S.join(["-i", "i", "-o", "o", "-a", "--preserve-host-bits", hb]), "-"], ok, "host bits %s" % hb))
    edge.append((["main", S.join(["-o", "o", "-a"]), "-"], False, "missing input"))
    edge.append((["main", S.join(["-i", "i", "-a"]), "-"], False, "missing output"))
    edge.append((["main", S.join(["-c", "@CFG@", "-a"]), "input=i\n"], False, "missing output (config)"))
    edge.append((["main", S.join(["-i", "i", "-o", "", "-a"]), "-"], False, "empty output"))
    edge.append((["main", S.join(["-i", "", "-o", "o", "-p"]), "-"], False, "empty input"))
    edge.append((["main", S.join(["-i", "i", "--output=", "-a", "-d", "dump.txt"]), "-"], False, "empty output (--output=)"))
    edge.append((["main", S.join(["-c", "@CFG@", "-a"]), "input=i\noutput=\n"], False, "empty output (config)"))
    # a dump request whose value is the empty string is still a dump request: without -a it is rejected like any other
    edge.append((["main", S.join(["-i", "i", "-o", "o", "-p", "-d", ""]), "-"], False, "empty dump path without -a"))
    edge.append((["main", S.join(["-i", "i", "-o", "o", "-w", "x", "--dump-ip-map="]), "-"], False, "empty dump path (--dump-ip-map=) without -a"))
    edge.append((["main", S.join(["-i", "i", "-o", "o", "-u", "-s", "s", "-d", ""]), "-"], False, "empty dump path with undo, without -a"))
    edge.append((["main", S.join(["-i", "i", "-o", "o", "-a", "-d", ""]), "-"], True, "empty dump path with -a"))
    eo = vlib.run_impl([e[0] for e in edge])
    for (c, ok, what), o in zip(edge, eo):
        if ok != o.startswith("CALL"):
            ctx.fail("%s: expected %s, got %s" % (what, "acceptance" if ok else "rejection before any call", o[:60]), c, o, label="impl")
    ctx.evaluations = len(recs) * 3 + len(edge)
    ctx.distinct_nontrivial = len({str(sorted(r.items())) for r in recs})
    ctx.search_stats = {"records": len(recs), "renderings": 3, "edge_cases": len(edge), "calls": sum(1 for o in io_ if o.startswith("CALL")), "rejections": sum(1 for o in io_ if o.startswith("RAISED"))}
    ctx.samples = [{"record": recs[0], "impl": io_[0]}, {"record": recs[-3], "impl": io_[-3]}]
