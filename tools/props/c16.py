"""C16: files map one-to-one; inputs untouched; failures isolated; entry points agree."""
import base64
import json
import vlib
from . import c12, ipgen, textgen
from .textcommon import TEXT_MODEL_DEPS as MODEL_DEPS, TEXT_TRUSTED as TRUSTED_BASE, TEXT_ASSUMPTIONS as ASSUMPTIONS  # noqa

COQ_DEPS = ["lib/Str.v", "model/TextModel.v", "model/TextProofs.v"]
RULE = ("generated directory trees (nesting, names with spaces / non-ASCII, dot-files at every depth, dot-directories, empty sub-directories, pre-existing output directory), every feature subset sampled, "
        "a failing file (undecodable bytes -- small, and larger than one read buffer with secrets before the bad bytes -- or output path occupied by a directory) at every position of the walk; "
        "the four entry points main / anonymize_files / anonymize_file / anonymize_io on the same tree; the model processes the files in walk order with one shared state; "
        "non-trivial = a distinct (tree, options, entry point, failing position) run")

NAMES = ["r1.cfg", "core rtr.conf", "édge.txt", "a", "zz.cfg", "B.CFG", "x.y.z"]
DIRS = ["", "site a", "site a/rack", "dc1", ".snapshots", "dc1/.hidden dir"]


def b64(s):
    return base64.b64encode(s if isinstance(s, bytes) else s.encode()).decode()


def gen_tree(rng, nfiles):
    files = {}
    while len(files) < nfiles:
        d = rng.choice(DIRS)
        n = rng.choice(NAMES)
        rel = (d + "/" + n) if d else n
        if rel in files or any(rel.startswith(k + "/") or k.startswith(rel + "/") for k in files):
            continue
        text = "".join(l if l.endswith("\n") else l + "\n" for l, _ in c12.build_text(rng, rng.randrange(1, 6))).replace("\r\n", "\n")
        files[rel] = text
    dots = {}
    for d in rng.sample(DIRS, 3):
        dots[(d + "/" if d else "") + rng.choice([".hidden", ".r1.cfg.swp", ".DS_Store"])] = "password hidden%d\n" % len(dots)
    return files, dots


def walk_order(rels):
    """os.walk top-down with sorted dirs and files"""
    def key(rel):
        parts = rel.split("/")
        return [(1, p) for p in parts[:-1]] + [(0, parts[-1])]
    # files of a directory before its sub-directories; sub-directories in sorted order
    def k2(rel):
        parts = rel.split("/")
        out = []
        for i, p in enumerate(parts):
            out.append((1 if i < len(parts) - 1 else 0, p))
        return out
    return sorted(rels, key=k2)


def nets_field(lst):
    """the pipe case's spelling of a network list: int/len items joined by ';' ('-' = not given)"""
    import ipaddress
    if lst is None:
        return "-"
    return ";".join("%d/%d" % (int(ipaddress.ip_network(x).network_address), ipaddress.ip_network(x).prefixlen) for x in lst)


def run(ctx):
    rng, q = ctx.rng, ctx.quick()
    runs, meta = [], []
    feats = [dict(pwd=True), dict(ip=True), dict(pwd=True, ip=True, words=["seattle"], asnums=["65001"]), dict(words=["kayak", "seattle"]), dict(ip=True, asnums=["64512"])]
    for t in range(4 if q else 40):
        files, dots = gen_tree(rng, rng.randrange(2, 6))
        hb = rng.choice([8, 8, 0, 4])
        opts = dict(rng.choice(feats), salt=rng.choice(["s", "T0", "netconan"]), b4=hb, b6=hb, hostbits=hb, precreate_out=rng.random() < 0.3,
                    prefixes=rng.choice([None, None, ["20.0.0.0/8"], ["12.0.0.0/6", "192.168.0.0/16"]]), networks=rng.choice([None, None, ["11.22.0.0/16"]]))
        tree = [[r, b64(c), {}] for r, c in list(files.items()) + list(dots.items())] + [["empty dir", None, {}]]
        for mode in ("api", "main", "file", "io"):
            runs.append(["files", mode, json.dumps(opts), json.dumps(tree)])
            meta.append(("tree", t, mode, files, dots, opts, None))
        # a failing file at every position of the walk order
        order = walk_order(list(files))
        for pos in range(len(order) + 1):
            kind = rng.choice(["bytes-small", "bytes-late", "outdir"])
            name = "%s_bad.cfg" % (order[pos - 1] if pos else "0")
            name = name.replace("/", "_") if "/" not in (order[pos - 1] if pos else "") else (order[pos - 1].rsplit("/", 1)[0] + "/" + order[pos - 1].rsplit("/", 1)[1] + "_bad")
            if name in files:
                continue
            if kind == "bytes-small":
                bad = [name, b64(b"password early1\n\xff\xfe\x00 broken\n"), {}]
            elif kind == "bytes-late":
                bad = [name, b64(b"password early%d\nsnmp-server community latecomm%d RO\n" % (pos, pos) + b"! filler line\n" * 900 + b"\xff\xfe broken\n"), {}]
            else:
                bad = [name, b64("password early9\n"), {"out_is_dir": True}]
            runs.append(["files", "api", json.dumps(opts), json.dumps(tree + [bad])])
            meta.append(("fail", t, kind, files, dots, opts, name))
        # single-file input
        one = order[0]
        o1 = dict(opts, single=one)
        for mode in ("api", "main"):
            runs.append(["files", mode, json.dumps(o1), json.dumps(tree)])
            meta.append(("single", t, mode, files, dots, o1, one))
        # single-file input whose named output path is an existing directory: reported, nothing written, by every entry point
        o2 = dict(o1, single_out_is_dir=True)
        for mode in ("api", "main", "file"):
            runs.append(["files", mode, json.dumps(o2), json.dumps(tree)])
            meta.append(("single-outdir", t, mode, files, dots, o2, one))
    # entry conditions of the directory walk: missing input, empty input directory, a FILE where the output directory should be
    for mode in ("api", "main"):
        for extra, tr in (({"input_missing": True}, [["a.cfg", b64("password x1secret\n"), {}]]), ({}, [["only-a-dir", None, {}]]), ({"out_is_file": True}, [["a.cfg", b64("password x1secret\n"), {}]])):
            o3 = dict(pwd=True, salt="s", b4=8, b6=8, hostbits=8, **extra)
            if not extra:
                tr = []
            runs.append(["files", mode, json.dumps(o3), json.dumps(tr)])
            meta.append(("refused", 0, mode, {}, {}, o3, sorted(extra) or ["empty_input"]))
    sec = {"a.cfg": "username alice password AlicePw1\nsnmp-server community AliceComm RO\n", "site/c.cfg": "username carol password CarolPw3\nenable password CarolEn4\n"}
    late = [["b.cfg", b64(b"username bob password BobPw2\nsnmp-server community BobComm RW\n" + b"! filler line\n" * 1500 + b"\xff\xfe broken\n"), {}]]
    stree = [[r, b64(c), {}] for r, c in sec.items()]
    sopts = dict(pwd=True, salt="s", b4=8, b6=8, hostbits=8)
    for mode in ("api", "main"):
        runs.append(["files", mode, json.dumps(sopts), json.dumps(stree)])
        meta.append(("tree", 10_000 if mode == "api" else 10_001, mode, sec, {}, sopts, None))
        runs.append(["files", mode, json.dumps(sopts), json.dumps(stree + late)])
        meta.append(("fail", 10_000 if mode == "api" else 10_001, "bytes-late", sec, {}, sopts, "b.cfg"))
    outs = vlib.run_impl(runs)
    res = []
    for o in outs:
        try:
            res.append(json.loads(o))
        except Exception:
            res.append({"broken": o[:300]})
    base = {}
    nt = 0
    mcases, mwhere = [], []
    for (kind, t, mode, files, dots, opts, extra), r, c in zip(meta, res, runs):
        nt += 1
        if "broken" in r:
            ctx.fail("run crashed", {"mode": mode, "opts": opts}, r["broken"], label="impl")
            continue
        if not r["inputs_unchanged"]:
            ctx.fail("an input file was modified", {"mode": mode, "opts": opts, "tree": sorted(files)}, r["listing"], label="impl")
        if kind == "tree":
            exp = set(files)          # non-hidden = base name does not start with a dot
            got = set(r["out"])
            if r["raised"] or got != exp:
                ctx.fail("output files are not exactly the non-hidden input files (mode %s)" % mode, {"opts": opts, "inputs": sorted(files) + sorted(dots)},
                         {"raised": r["raised"], "unexpected": sorted(got - exp), "missing": sorted(exp - got)}, label="impl")
            stray = [p for p in r["listing"] if not (p.startswith("in/") or p.startswith("out/"))]
            if stray:
                ctx.fail("something else was written", {"mode": mode}, stray, label="impl")
            if mode == "api" or t >= 10_000:
                base[t] = r["out"]
                order = walk_order(list(files))
                lines = [l + "\n" for rel in order for l in files[rel].split("\n")[:-1]]
                if t < 10_000:
                  mcases.append(textgen.pipe(lines, flags=("p" if opts.get("pwd") else "") + ("a" if opts.get("ip") else ""), salt=opts["salt"], words=opts.get("words"), asnums=opts.get("asnums"), b4=opts["b4"], b6=opts["b6"],
                                             pfx=nets_field(opts.get("prefixes")), nets=nets_field(opts.get("networks"))))
                  mwhere.append((t, order, files))
            elif t < 10_000 and t in base and r["out"] != base[t]:
                k = next((x for x in sorted(base[t]) if r["out"].get(x) != base[t][x]), None)
                ctx.fail("entry point %r produces different content than anonymize_files" % mode, {"opts": opts, "file": k}, (r["out"].get(k) or "")[:200], base[t].get(k, "")[:200], label="impl")
        elif kind == "fail":
            name = extra
            others = {k: v for k, v in r["out"].items() if k != name and not k.startswith(name + "/")}
            if t in base and others != base[t]:
                k = next((x for x in sorted(base[t]) if others.get(x) != base[t][x]), None)
                ctx.fail("a file that cannot be processed (%s, at %s) changed the output of another file" % (mode, name), {"opts": opts, "file": k, "failing": name},
                         (others.get(k) or "<missing>")[:200], base[t].get(k, "")[:200], label="impl")
            if not any(name in e for e in r["errors"]):
                ctx.fail("the failed file %s is not reported in an ERROR record" % name, {"opts": opts}, r["errors"], label="impl")
            if mode == "outdir" and name in r["out"]:
                pass
        elif kind == "refused":
            why = extra[0]
            written = [p for p in r["listing"] if not p.startswith("in/") and p != "out"]
            if not r["raised"] or "ValueError" not in str(r["raised"]):
                ctx.fail("%s: the run was not refused with a ValueError (entry point %s)" % (why, mode), {"opts": opts}, r["raised"], label="impl")
            if written or (why == "out_is_file" and r["out"].get("<the pre-existing output file>") != "KEEP ME\n"):
                ctx.fail("%s: something was written or an existing file was changed (entry point %s)" % (why, mode), {"opts": opts}, {"listing": r["listing"], "out": r["out"]}, label="impl")
        elif kind == "single-outdir":
            stray = [p for p in r["listing"] if not p.startswith("in/")]
            if stray or r["out"]:
                ctx.fail("single input file whose output path is an existing directory: something was written (entry point %s)" % mode, {"opts": opts}, stray or sorted(r["out"]), label="impl")
            if mode != "file" and (r["raised"] or not r["errors"]):
                ctx.fail("single input file whose output path is an existing directory is not reported as a failed file (entry point %s)" % mode, {"opts": opts}, {"raised": r["raised"], "errors": r["errors"]}, label="impl")
        else:
            one = extra
            if r["raised"] or list(r["out"]) != [one]:
                ctx.fail("single input file did not yield exactly the named output file", {"opts": opts}, {"raised": r["raised"], "out": sorted(r["out"])}, label="impl")
    # model: files in walk order through one shared anonymizer
    if ctx.model_ok and mcases:
        mo = vlib.run_model(mcases)
        nd = 0
        for o, (t, order, files) in zip(mo, mwhere):
            exp_concat = "".join(base[t].get(rel, "<missing>") for rel in order) if t in base else None
            got = "".join(textgen.outlines(o)) if not o.startswith("RAISED") else o
            if exp_concat is not None and got != exp_concat:
                nd += 1
                if len(ctx.disagreements) < 10:
                    ctx.disagreements.append({"case": {"files": order}, "label": "files-in-walk-order", "model": got[:400], "impl": exp_concat[:400]})
        ctx.corr_stats.update({"cases": len(mcases), "disagreements": nd, "projection": "concatenated file contents in walk order (one shared anonymizer state)"})
    ctx.evaluations = len(runs)
    ctx.distinct_nontrivial = nt
    ctx.search_stats = {"runs": len(runs), "trees": len(base), "failing_file_runs": sum(1 for m in meta if m[0] == "fail")}
    ctx.samples = [{"mode": meta[0][2], "files": sorted(meta[0][3]), "outputs": sorted(res[0].get("out", {}))}]
