"""C14: anonymization is total -- no line content or salt can make it fail."""
import itertools
from . import ipgen, linegen, textgen
from .textcommon import TEXT_MODEL_DEPS as MODEL_DEPS, TEXT_TRUSTED as TRUSTED_BASE, TEXT_ASSUMPTIONS as ASSUMPTIONS  # noqa

COQ_DEPS = ["lib/Str.v", "lib/Rx.v", "lib/RxFacts.v", "lib/RxSub.v", "gen/G_rx.v", "gen/G_text_consts.v", "model/TextModel.v", "model/JunModel.v", "model/JunProofs.v", "model/TextProofs.v", "lib/RxComplete.v", "lib/RxGroups.v", "gen/G_fn_sir.v", "model/EncProofs.v", "model/TotalProofs.v", "model/TotalIp.v", "model/TotalWords.v", "model/TotalAs.v", "model/TotalLine.v", "model/SortProofs.v", "model/AsModel.v", "lib/IpText.v", "model/IpModel.v", "model/IpModelFacts.v", "lib/MemoProofs.v"]
RULE = ("every corpus template x awkward secrets (backslashes, regex metacharacters, malformed $1$/$9$/$6$ (wrong alphabet incl. non-ASCII digits and letters, truncated), near-IPv6 text, long quote/bracket runs, non-ASCII, control characters), random mutations of those lines, "
        "near-address tokens; all five features on and single-feature subsets; salts with every kind of first character (alphabet, outside, empty, non-ASCII); any exception on the implementation is a violation; "
        "non-trivial = a distinct hostile line")

AWKWARD = ["RemoveMe", "12345", "abcdef12", "122A00190102180D3C2E", "$1$wtHI$0rN7R8PKwC30AsCGA77vy.", "$6$RMxgK5ALGIf.nWEC$tHuKCyfNtJ", "$9$HqfQ1IcrK8n/t0IcvM24aZGi6/t", "$9$ab", "$9$", "$9$Qnet", "$9$abcd!", "$9$ab\u0663d", "$9$\u0663\u0663\u0663\u0663", "$9$HqfQ1Ic\u0663K8n/t0IcvM24aZGi6/t", "$9$\uff11\uff12\uff13\uff14\uff15", "$9$ab\u00e9d", "$9$\u00b2\u00b5ab",
           "$1$abcdefghi$xx", "$1$a!b$xx", "$1$$x", "$1$a$", "$6$", "a\\b", "a\\q", "a\\1", "a\\g<0>", "\\g<prefix>", "(x", "[x", "x)", "*x", "+", "?", "{", "}", "|", "^$", "\\", "\"q\"", "'q'", "é", "٣٣",
           "\x00", "\u2028", "fe80:%x", "fe80:::1%x", "::ffff:1.2.3.4", "1.2.3.4", "255.255.255.0", "\"" * 60, "[" * 60, "{[\"'" * 30, "netconanRemoved0", "0" * 40, "9" * 60, "ff" * 40, "00", "1" + "0" * 30 + "1"]
SPECIALS = list("\\$^*+?()[]{}|.\"'`;:,<>%&#@!~ \t\x0b\x0c\x1c\x85\xa0") + ["\\b", "\\1", "\\g<prefix>", "$9$", "$1$", "$6$", "::", "fe80:%", "1.2.3.4", "é", "٣", "𝟙", "\ud7ff", "\U0010ffff"]
SALTS = ["S", "", "_x", "é", "Q", "0", "-", "a b", "$", "\\", "\U0001f600", "netconan"]


def mutate(rng, s):
    s = list(s)
    for _ in range(rng.randint(1, 3)):
        i = rng.randint(0, len(s))
        op = rng.random()
        if op < 0.6:
            s.insert(i, rng.choice(SPECIALS))
        elif op < 0.8 and s:
            del s[min(i, len(s) - 1)]
        else:
            s.insert(i, rng.choice(AWKWARD))
    return "".join(s).replace("\n", " ")


def run(ctx):
    rng, q = ctx.rng, ctx.quick()
    lines = []
    tpls = [t for t, _ in textgen.TEMPLATES]
    for tpl in tpls:
        for s in (rng.sample(AWKWARD, 8) if q else AWKWARD):
            lines.append(tpl.replace("{0}", s).replace("{}", s) + "\n")
    for _ in range(1500 if q else 30000):
        tpl = rng.choice(tpls)
        lines.append(mutate(rng, tpl.replace("{0}", rng.choice(AWKWARD)).replace("{}", rng.choice(AWKWARD))) + "\n")
    lines += [x + "\n" for x in linegen.V4_NEAR + linegen.V6_NEAR + linegen.V6_TAIL + linegen.V6_TAIL_UNLISTED]
    # characters that Python's case-insensitive matching equates with ASCII letters (dotted/dotless i, long s, Kelvin sign) inside listed words
    for wv in ["\u0130ntentionet", "\u0131ntentionet", "INTENT\u0130ONET", "\u017fea", "\u017fEA-core", "sea\u017f", "intent\u0131onet.example", "\u212aayak", "clas\u017fified \u0130stanbul"]:
        for pre in ("hostname ", "description link to ", ""):
            lines.append(pre + wv + " up\n")
    lines.append("password " + "\"" * 150 + "\n")
    lines.append("key [" * 40 + "\n")
    rng.shuffle(lines)
    cases = []
    feats = [("pa", ["intentionet", "sea"], ["65000", "12345"])] * 3 + [("p", None, None), ("a", None, None), ("", ["sea"], None), ("", None, ["65000"]), ("u", None, None)]
    per = 60
    for k in range(0, len(lines), per):
        fl, w, n = feats[(k // per) % len(feats)]
        cases.append(textgen.pipe(lines[k:k + per], flags=fl, salt=SALTS[(k // per) % len(SALTS)], words=w, asnums=n))
    # a netmask / wildcard / preserved address together with THE ordinary address whose image is that very value (any table keyed by value meets both)
    import ipaddress
    from . import ipref
    for salt in ("S", "", "Q", "netconan"):
        H = ipref.salter_of("md5:" + salt)
        seeds = ipref.seeds_of("D", "-", ipref.DEFAULTS)
        ls = []
        for mval in ("0.0.255.255", "255.255.255.0", "255.255.0.0", "0.0.0.255", "255.255.255.252", "0.0.0.0", "255.255.255.255", "128.0.0.0"):
            mi = int(ipaddress.IPv4Address(mval))
            x = str(ipaddress.IPv4Address(ipref.image(H, 32, 8, seeds, mi, undo=True)))
            ls += ["access-list 10 permit %s %s\n" % (x, mval), "ip route %s %s\n" % (mval, x), "network %s\n" % x, "mask %s\n" % mval, "host %s\n" % x]
        for fl in ("a", "pa"):
            cases.append(textgen.pipe(ls, flags=fl, salt=salt))
    # the model is exercised on the same stream (a raise on one side only is a disagreement); non-ASCII / oracle-less lines included
    m, i = ctx.correspond(cases, project=lambda c, o: "RAISED" if o.startswith("RAISED") else "ok", label="totality")
    for c, out in zip(cases, i):
        if out.startswith("RAISED"):
            # shrink to the first failing line
            import vlib
            ls = c[11:]
            bad = None
            for l in ls:
                o1 = vlib.run_impl([c[:10] + [textgen.oracle_for([l]) if "p" in c[1] else ""] + [l]])[0]
                if o1.startswith("RAISED"):
                    bad = (l, o1)
                    break
            ctx.fail("processing a line raised %s" % (bad[1] if bad else out), {"line": bad[0] if bad else "<%d lines>" % len(ls), "flags": c[1], "salt": c[2], "words": c[3], "asnums": c[4]}, bad[1] if bad else out, label="impl")
    # very long runs of quotes / brackets: implementation only (the extracted regex engine needs minutes on them), every feature subset
    import vlib
    giants = ["password " + "\"" * 3000 + "\n", "key [" * 700 + "\n", "description " + "{[\"'" * 800 + "\n", "secret " + "'" * 2600 + "x" + "'" * 2600 + "\n"]
    gcases = [textgen.pipe([g], flags=fl, salt=sa, words=w, asnums=n) for g in giants for (fl, w, n) in feats[2:] for sa in ("S", "")]
    for c, out in zip(gcases, vlib.run_impl(gcases)):
        if out.startswith("RAISED"):
            ctx.fail("processing a line of %d characters raised %s" % (len(c[11]), out), {"line": c[11][:40] + "...", "flags": c[1], "salt": c[2]}, out, label="impl")
    ctx.evaluations = len(lines) + len(gcases)
    ctx.distinct_nontrivial = len(set(lines))
    ctx.search_stats = {"hostile_lines": len(lines), "cases": len(cases), "salts": SALTS, "raised": sum(1 for o in i if o.startswith("RAISED"))}
    ctx.samples = [textgen.sample(cases[0], i[0], 0), textgen.sample(cases[0], i[0], 1)]
