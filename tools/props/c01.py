"""C01: common-prefix length preserved; injective; permutation."""
from . import ipgen

COQ_DEPS = ["lib/PPCore.v", "lib/PPHost.v", "lib/Memo.v", "lib/MemoProofs.v"]
MODEL_DEPS = COQ_DEPS + ["lib/Md5.v", "lib/Str.v", "lib/Mask.v", "gen/G_ip_consts.v", "model/IpModel.v", "model/DriverIp.v", "model/Driver.v", "model/Extract.v"]
TRUSTED_BASE = [
    "Coq 8.16.1 kernel (coqc); vm_compute used only in the non-vacuity Example",
    "axioms: none (Print Assumptions: Closed under the global context for every theorem)",
    "hand-written model lib/Memo.v + model/IpModel.v of _BaseIpAnonymizer/IpAnonymizer/IpV6Anonymizer, tied to /repo by the correspondence run of this check (extracted with ExtrOcamlBasic, no Extract Constant)",
    "generated unit gen/G_ip_consts.v (class constants read from the imported module)",
    "lib/Md5.v (MD5 in Gallina, validated against hashlib through the same correspondence)",
    "ipaddress option-string parsing is outside the model (cases pass already-parsed networks)",
]
ASSUMPTIONS = ["option strings are parsed by Python's ipaddress module (not modelled)", "bidict 0.24 semantics as modelled in lib/Memo.v (bput)"]
RULE = ("small widths 1-6: every address of the space under random flip tables and every B; widths 32/128: addresses built to share exactly k leading bits "
        "for random k, boundary addresses of every preserved prefix; salts incl. empty/non-ASCII; non-trivial = a pair of distinct addresses whose images were compared")


def oracle(ctx, case, out, label):
    """lcp of every pair preserved, images distinct -- computed from the property text only"""
    w = ipgen.case_width(case)
    ops = ipgen.ops_of(case)
    res = out.split(" ")
    if len(res) != len(ops):
        ctx.fail("anonymize raised or returned garbage", case, out, label=label)
        return 0
    pts = {}
    for op, r in zip(ops, res):
        if op[0] != "a":
            continue
        if not r.isdigit():
            ctx.fail("anonymize(%s) did not return an address" % op[1:], case, r, label=label)
            return 0
        x, y = int(op[1:]), int(r)
        if y >= 2**w:
            ctx.fail("image outside the address space", case, r, label=label)
        if x in pts and pts[x] != y:
            ctx.fail("same address mapped to two images within one run", case, [x, pts[x], y], label=label)
        pts[x] = y
    items = list(pts.items())
    pairs = 0
    for i in range(len(items)):
        for j in range(i + 1, len(items)):
            (a, fa), (b, fb) = items[i], items[j]
            pairs += 1
            ka, kb = ipgen.lcp(a, b, w), ipgen.lcp(fa, fb, w)
            if ka != kb:
                ctx.fail("common-prefix length %d became %d" % (ka, kb), case, {"a": a, "b": b, "image_a": fa, "image_b": fb}, label=label)
                return pairs
    if case[0] == "base" and len(items) == 2**w and sorted(pts.values()) != list(range(2**w)):
        ctx.fail("not a permutation of the %d-bit space" % w, case, sorted(pts.values()), label=label)
    return pairs


def run(ctx):
    rng = ctx.rng
    q = ctx.quick()
    cases = ipgen.small_cases(rng, 6 if q else 40)
    cases += [ipgen.ip4_case(rng) for _ in range(60 if q else 1500)]
    for pfx in ipgen.PREFIX_LISTS:      # every listed prefix list with B = 0 and B = 8
        for B in (0, 8):
            cases.append(ipgen.ip4_case(rng, pfx=pfx, B=B))
    cases += [ipgen.ip6_case(rng) for _ in range(10 if q else 300)]
    m, i = ctx.correspond(cases, label="anonymize")
    pairs = 0
    for c, io in zip(cases, i):
        pairs += oracle(ctx, c, io, "impl")
    ctx.evaluations = len(cases)
    ctx.distinct_nontrivial = pairs
    ctx.search_stats = {"pairs_compared": pairs, "cases": len(cases)}
    ctx.samples = [{"case": c, "impl": o} for c, o in list(zip(cases, i))[:2] + list(zip(cases, i))[-2:]]
