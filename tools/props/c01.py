"""C01: common-prefix length preserved; injective; permutation."""
from . import ipgen

from .ipcommon import MODEL_DEPS, TRUSTED_BASE, ASSUMPTIONS, RULE_C01 as RULE  # noqa
COQ_DEPS = ["lib/PPCore.v", "lib/PPHost.v", "lib/Memo.v", "lib/MemoProofs.v", "lib/PyLib.v", "gen/G_fn_ip.v", "refine/RefIpCommon.v", "refine/RefAnon.v"]


def oracle(ctx, case, out, label):
    """lcp of every pair preserved, images distinct -- computed from the property text only"""
    w = ipgen.case_width(case)
    ops = ipgen.ops_of(case)
    res = out.split(" ")
    if len(res) != len(ops):
        ctx.fail("anonymize raised or returned garbage", case, out, label=label)
        return 0
    pts = {}
    for op, r in zip(ops, res):
        if op[0] != "a":
            continue
        if not r.isdigit():
            ctx.fail("anonymize(%s) did not return an address" % op[1:], case, r, label=label)
            return 0
        x, y = int(op[1:]), int(r)
        if y >= 2**w:
            ctx.fail("image outside the address space", case, r, label=label)
        if x in pts and pts[x] != y:
            ctx.fail("same address mapped to two images within one run", case, [x, pts[x], y], label=label)
        pts[x] = y
    items = list(pts.items())
    pairs = 0
    for i in range(len(items)):
        for j in range(i + 1, len(items)):
            (a, fa), (b, fb) = items[i], items[j]
            pairs += 1
            ka, kb = ipgen.lcp(a, b, w), ipgen.lcp(fa, fb, w)
            if ka != kb:
                ctx.fail("common-prefix length %d became %d" % (ka, kb), case, {"a": a, "b": b, "image_a": fa, "image_b": fb}, label=label)
                return pairs
    if case[0] == "base" and len(items) == 2**w and sorted(pts.values()) != list(range(2**w)):
        ctx.fail("not a permutation of the %d-bit space" % w, case, sorted(pts.values()), label=label)
    return pairs


def project(case, out):
    """pairwise common-prefix lengths of the images (and which images coincide)"""
    w = ipgen.case_width(case)
    ops, res = ipgen.ops_of(case), out.split(" ")
    if len(ops) != len(res) or not all(r.isdigit() for r in res):
        return "ERR"
    ys = [int(r) for r in res]
    return [ipgen.lcp(ys[i], ys[j], w) for i in range(len(ys)) for j in range(i + 1, len(ys))]


def run(ctx):
    rng = ctx.rng
    q = ctx.quick()
    cases = ipgen.small_cases(rng, 6 if q else 40)
    cases += [ipgen.ip4_case(rng) for _ in range(60 if q else 1500)]
    for pfx in ipgen.PREFIX_LISTS:      # every listed prefix list with B = 0 and B = 8
        for B in (0, 8):
            cases.append(ipgen.ip4_case(rng, pfx=pfx, B=B))
    cases += [ipgen.ip6_case(rng) for _ in range(10 if q else 300)]
    m, i = ctx.correspond(cases, project=project, label="anonymize")
    # the code GENERATED from the source by the function-level translator, on the small-width cases
    gen_cases = [["gbase"] + c[1:] for c in cases if c[0] == "base"]
    ctx.correspond(gen_cases, project=lambda c, o: project(["base"] + c[1:], o), label="generated-code")
    pairs = 0
    for c, io in zip(cases, i):
        pairs += oracle(ctx, c, io, "impl")
    # long single-instance histories (implementation only; see ipgen.long_history)
    import vlib
    longs = [ipgen.long_history(rng, 16000 if q else 60000, B=B, pfx=pfx) for B, pfx in ((8, "D"), (0, "D"))]
    lo = vlib.run_impl(longs, jobs=2)
    for c, out in zip(longs, lo):
        ops, res = ipgen.ops_of(c), out.split(" ")
        if len(ops) != len(res) or not all(r.isdigit() for r in res):
            ctx.fail("anonymize raised in a long history", c[:-1] + ["<%d requests>" % len(ops)], out[:200], label="impl-long")
            continue
        seen = {}
        for k, (o, r) in enumerate(zip(ops, res)):
            if o in seen and seen[o] != r:
                ctx.fail("the same address received two different images within one run (request %d of %d)" % (k, len(ops)),
                         c[:-1] + ["<%d distinct addresses, then %s again>" % (len(ops) - 200, o)], {"first": seen[o], "later": r}, label="impl-long")
                break
            seen[o] = r
        # pairs between early, middle and late addresses
        idx = list(range(0, 150)) + list(range(len(ops) // 2, len(ops) // 2 + 100)) + list(range(len(ops) - 350, len(ops) - 200))
        pts = [(int(ops[k][1:]), int(res[k])) for k in idx]
        for a in range(len(pts)):
            for b in range(a + 1, len(pts)):
                pairs += 1
                if ipgen.lcp(pts[a][0], pts[b][0], 32) != ipgen.lcp(pts[a][1], pts[b][1], 32):
                    ctx.fail("common-prefix length not preserved between addresses anonymized far apart in one long run",
                             c[:-1] + ["<%d requests>" % len(ops)], {"a": pts[a][0], "b": pts[b][0], "image_a": pts[a][1], "image_b": pts[b][1]}, label="impl-long")
                    break
            else:
                continue
            break
    ctx.evaluations = len(cases) + len(longs)
    ctx.distinct_nontrivial = pairs
    ctx.search_stats = {"pairs_compared": pairs, "cases": len(cases), "long_histories": [len(ipgen.ops_of(c)) for c in longs]}
    ctx.samples = [{"case": c, "impl": o} for c, o in list(zip(cases, i))[:2] + list(zip(cases, i))[-2:]]
