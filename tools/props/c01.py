"""C01: common-prefix length preserved; injective; permutation."""
from . import ipgen

from .ipcommon import MODEL_DEPS, TRUSTED_BASE, ASSUMPTIONS, RULE_C01 as RULE  # noqa
COQ_DEPS = ["lib/PPCore.v", "lib/PPHost.v", "lib/Memo.v", "lib/MemoProofs.v", "lib/PyLib.v", "gen/G_fn_ip.v", "refine/RefIpCommon.v", "refine/RefAnon.v", "refine/RefDeanon.v", "refine/RefInit.v", "refine/RefHash.v", "refine/RefEndToEnd.v", "lib/PyHash.v", "lib/Md5.v", "model/IpModel.v", "model/DriverFn.v"]


def oracle(ctx, case, out, label):
    """lcp of every pair preserved, images distinct -- computed from the property text only"""
    w = ipgen.case_width(case)
    ops = ipgen.ops_of(case)
    res = out.split(" ")
    if len(res) != len(ops):
        ctx.fail("anonymize raised or returned garbage", case, out, label=label)
        return 0
    pts = {}
    for op, r in zip(ops, res):
        if op[0] != "a":
            continue
        if not r.isdigit():
            ctx.fail("anonymize(%s) did not return an address" % op[1:], case, r, label=label)
            return 0
        x, y = int(op[1:]), int(r)
        if y >= 2**w:
            ctx.fail("image outside the address space", case, r, label=label)
        if x in pts and pts[x] != y:
            ctx.fail("same address mapped to two images within one run", case, [x, pts[x], y], label=label)
        pts[x] = y
    items = list(pts.items())
    pairs = 0
    for i in range(len(items)):
        for j in range(i + 1, len(items)):
            (a, fa), (b, fb) = items[i], items[j]
            pairs += 1
            ka, kb = ipgen.lcp(a, b, w), ipgen.lcp(fa, fb, w)
            if ka != kb:
                ctx.fail("common-prefix length %d became %d" % (ka, kb), case, {"a": a, "b": b, "image_a": fa, "image_b": fb}, label=label)
                return pairs
    if case[0] == "base" and len(items) == 2**w and sorted(pts.values()) != list(range(2**w)):
        ctx.fail("not a permutation of the %d-bit space" % w, case, sorted(pts.values()), label=label)
    return pairs


def project(case, out):
    """pairwise common-prefix lengths of the images (and which images coincide)"""
    w = ipgen.case_width(case)
    ops, res = ipgen.ops_of(case), out.split(" ")
    if len(ops) != len(res) or not all(r.isdigit() for r in res):
        return "ERR"
    ys = [int(r) for r in res]
    return [ipgen.lcp(ys[i], ys[j], w) for i in range(len(ys)) for j in range(i + 1, len(ys))]


def run(ctx):
    rng = ctx.rng
    q = ctx.quick()
    cases = ipgen.small_cases(rng, 6 if q else 40)
    cases += [ipgen.ip4_case(rng) for _ in range(60 if q else 1500)]
    for pfx in ipgen.PREFIX_LISTS:      # every listed prefix list with B = 0 and B = 8
        for B in (0, 8):
            cases.append(ipgen.ip4_case(rng, pfx=pfx, B=B))
    cases += [ipgen.ip6_case(rng) for _ in range(10 if q else 300)]
    m, i = ctx.correspond(cases, project=project, label="anonymize")
    # the code GENERATED from the source by the function-level translator, on the small-width cases
    gen_cases = [["gbase"] + c[1:] for c in cases if c[0] == "base"]
    ctx.correspond(gen_cases, project=lambda c, o: project(["base"] + c[1:], o), label="generated-code")
    pairs = 0
    for c, io in zip(cases, i):
        pairs += oracle(ctx, c, io, "impl")
    # long single-instance histories (implementation only; see ipgen.long_history)
    import vlib
    # (the second history is long enough to push the memo past a million entries: 32 prefixes per address with no host bits kept)
    longs = [ipgen.long_history(rng, n, B=B, pfx=pfx) for n, B, pfx in ((16000 if q else 60000, 8, "D"), (70000 if q else 120000, 0, "D"))]
    lo = vlib.run_impl(longs, jobs=2)
    for c, out in zip(longs, lo):
        ops, res = ipgen.ops_of(c), out.split(" ")
        if len(ops) != len(res) or not all(r.isdigit() for r in res):
            ctx.fail("anonymize raised in a long history", c[:-1] + ["<%d requests>" % len(ops)], out[:200], label="impl-long")
            continue
        seen = {}
        for k, (o, r) in enumerate(zip(ops, res)):
            if o in seen and seen[o] != r:
                ctx.fail("the same address received two different images within one run (request %d of %d)" % (k, len(ops)),
                         c[:-1] + ["<%d distinct addresses, then %s again>" % (len(ops) - 200, o)], {"first": seen[o], "later": r}, label="impl-long")
                break
            seen[o] = r
        # pairs between early, middle and late addresses
        idx = list(range(0, 150)) + list(range(len(ops) // 2, len(ops) // 2 + 100)) + list(range(len(ops) - 350, len(ops) - 200))
        pts = [(int(ops[k][1:]), int(res[k])) for k in idx]
        for a in range(len(pts)):
            for b in range(a + 1, len(pts)):
                pairs += 1
                if ipgen.lcp(pts[a][0], pts[b][0], 32) != ipgen.lcp(pts[a][1], pts[b][1], 32):
                    ctx.fail("common-prefix length not preserved between addresses anonymized far apart in one long run",
                             c[:-1] + ["<%d requests>" % len(ops)], {"a": pts[a][0], "b": pts[b][0], "image_a": pts[a][1], "image_b": pts[b][1]}, label="impl-long")
                    break
            else:
                continue
            break
    n_files = across_files(ctx, rng, q)
    n_files += text_level_mask_images(ctx, rng, q)
    ctx.evaluations = len(cases) + len(longs) + n_files
    ctx.distinct_nontrivial = pairs
    ctx.search_stats = {"pairs_compared": pairs, "cases": len(cases), "long_histories": [len(ipgen.ops_of(c)) for c in longs]}
    ctx.samples = [{"case": c, "impl": o} for c, o in list(zip(cases, i))[:2] + list(zip(cases, i))[-2:]]


def across_files(ctx, rng, q):
    """one run over a directory (with a file that fails in the middle, custom preserved prefixes, several host-bit counts): the addresses of
    ALL files of the run must be mapped by one prefix-preserving function"""
    import base64
    import ipaddress
    import json
    import vlib

    def lcp(a, b):
        return 32 - (a ^ b).bit_length()
    n = 0
    runs, metas = [], []
    for _ in range(3 if q else 30):
        base = rng.getrandbits(32)
        addrs = sorted({base ^ (1 << rng.randrange(32)) ^ (rng.getrandbits(k) if k else 0) for k in (0, 0, 3, 8, 8, 16, 24, 31) for _i in range(2)} | {base})
        from . import ipref
        addrs = [a for a in addrs if (a >> 28) < 14 and not ipref.is_mask_ref(a)]     # mask-shaped values are left alone on purpose (C05)
        names = ["a.cfg", "b.cfg", "c/d.cfg", "e.cfg"]
        files = {nm: [] for nm in names}
        for a in addrs:
            files[rng.choice(names)].append(a)
        tree = [[nm, base64.b64encode("".join("host %s\n" % ipaddress.IPv4Address(a) for a in xs).encode()).decode(), {}] for nm, xs in files.items()]
        tree.append(["b_bad.cfg", base64.b64encode(b"host 1.2.3.4\n\xff\xfe broken\n").decode(), {}])
        hb = rng.choice([0, 8, 5])
        opts = {"ip": True, "salt": rng.choice(["s", "T5", ""]), "b4": hb, "b6": hb, "hostbits": hb,
                "prefixes": rng.choice([None, ["20.0.0.0/8"], ["172.16.0.0/12", "192.168.0.0/16"], ["%s/9" % ipaddress.IPv4Address(base & 0xFF800000)]])}
        for mode in ("api", "main"):
            runs.append(["files", mode, json.dumps(opts), json.dumps(tree)])
            metas.append((files, opts, mode))
    for c, out, (files, opts, mode) in zip(runs, vlib.run_impl(runs), metas):
        try:
            r = json.loads(out)
            pairs = []
            for nm, xs in files.items():
                got = [int(ipaddress.IPv4Address(l.split()[1])) for l in r["out"][nm].splitlines()]
                assert len(got) == len(xs)
                pairs += list(zip(xs, got))
        except Exception as e:
            ctx.fail("directory run did not produce every readable file", {"opts": opts, "mode": mode}, out[:300], label="impl-files")
            continue
        n += len(pairs)
        bad = next(((x, y, fx, fy) for (x, fx) in pairs for (y, fy) in pairs if x < y and lcp(x, y) != lcp(fx, fy)), None)
        if bad:
            x, y, fx, fy = bad
            ctx.fail("within ONE run over a directory, %s and %s share %d leading bits but their images %s and %s share %d" % (
                ipaddress.IPv4Address(x), ipaddress.IPv4Address(y), lcp(x, y), ipaddress.IPv4Address(fx), ipaddress.IPv4Address(fy), lcp(fx, fy)),
                {"opts": opts, "entry_point": mode, "files": {k: [str(ipaddress.IPv4Address(a)) for a in v] for k, v in files.items()}}, [fx, fy], label="impl-files")
    return n


def text_level_mask_images(ctx, rng, q):
    """the mapping as the text pipeline applies it (anonymize_ip_addr), on the addresses a random search never meets: those whose IMAGE is
    netmask- or wildcard-shaped (about 64 per salt and option set), each with neighbours sharing k leading bits for several k.  The pre-images are
    computed with the independent reference walk (ipref.image with undo); the images are read from the output text."""
    import ipaddress
    from . import ipref, textgen
    MASKS = ["255.255.255.0", "0.0.0.255", "255.255.0.0", "63.255.255.255", "192.0.0.0", "255.255.255.252", "0.0.255.255", "255.255.255.253", "128.0.0.0", "0.0.0.3"]
    cases, metas = [], []
    for _ in range(6 if q else 60):
        salt, b4 = rng.choice(ipgen.SALTS), rng.choice([0, 8, 8, 2])
        pfx = rng.choice(["D", "D", ipgen.net("20.0.0.0", 8)])
        H = ipref.salter_of("md5:" + salt)
        seeds = ipref.seeds_of(pfx, "-", ipref.DEFAULTS)
        addrs = []
        for mval in rng.sample(MASKS, 4):
            x = ipref.image(H, 32, b4, seeds, int(ipaddress.IPv4Address(mval)), undo=True)
            for y in [x] + [x ^ (1 << k) for k in rng.sample(range(32), 5)]:
                if not ipref.is_mask_ref(y) and y not in addrs:
                    addrs.append(y)
        if len(addrs) < 2:
            continue
        lines = ["host %s\n" % ipaddress.IPv4Address(a) for a in addrs]
        cases.append(textgen.pipe(lines, flags="a", salt=salt, pfx=pfx, b4=b4))
        metas.append(addrs)
    if not cases:
        return 0
    m, i = ctx.correspond(cases, project=lambda c, o: textgen.norm(o), label="text-level-mask-images")
    for c, out, addrs in zip(cases, i, metas):
        if out.startswith("RAISED"):
            ctx.fail("processing raised", c[:11], out, label="impl-text")
            continue
        try:
            ys = [int(ipaddress.IPv4Address(l.split()[1])) for l in textgen.outlines(out)[:len(addrs)]]
        except Exception:
            ctx.fail("an address line did not come back as an address line", c[:11] + c[11:14], out[:300], label="impl-text")
            continue
        bad = None
        for a in range(len(addrs)):
            for b in range(a + 1, len(addrs)):
                if ipgen.lcp(addrs[a], addrs[b], 32) != ipgen.lcp(ys[a], ys[b], 32):
                    bad = (a, b)
                    break
            if bad:
                break
        if bad:
            a, b = bad
            ctx.fail("text pipeline: %s and %s share %d leading bits but their replacements %s and %s share %d (one of the images is netmask-shaped)" % (
                ipaddress.IPv4Address(addrs[a]), ipaddress.IPv4Address(addrs[b]), ipgen.lcp(addrs[a], addrs[b], 32),
                ipaddress.IPv4Address(ys[a]), ipaddress.IPv4Address(ys[b]), ipgen.lcp(ys[a], ys[b], 32)), c[:11] + c[11:], out[:400], label="impl-text")
    return sum(len(a) for a in metas)
