"""C05: masks and preserved addresses untouched (integer level: _is_mask, should_anonymize), no collisions."""
from . import ipgen, ipref
from .ipcommon import MODEL_DEPS, TRUSTED_BASE, ASSUMPTIONS  # noqa

COQ_DEPS = ["lib/PPCore.v", "lib/PPHost.v", "lib/Memo.v", "lib/MemoProofs.v", "lib/Pinned.v", "lib/Str.v", "lib/Mask.v", "lib/Md5.v", "model/IpModel.v", "lib/PyLib.v", "gen/G_fn_ip.v", "refine/RefMask.v", "refine/RefShould.v"]
RULE = ("_is_mask on all 66 mask/wildcard values, all their one-bit perturbations and random values, against a string-shape oracle; should_anonymize and images for "
        "addresses inside/outside preserved networks (first/last/neighbours/random), every B; "
        "non-trivial = a distinct 32-bit value tested for mask shape, or an outside address whose image was tested for collision")


MASK_WITH_LEN = ["255.255.255.0/24", "224.0.0.0/4", "240.0.0.0/4", "128.0.0.0/1", "192.0.0.0/2", "255.255.255.255/32", "0.0.0.3/32", "0.0.0.0/0", "255.0.0.0/8", "0.255.255.255/8"]


def cli_preserved(ctx, rng, q):
    """through the real command line: --preserve-addresses together with --preserve-private-addresses (and each alone); one address out of
    every /8 of the classes of the preserved blocks: nothing outside may land inside, everything inside stays as written"""
    import base64
    import ipaddress
    import json
    import vlib
    n = 0
    combos = [(["150.0.0.0/8"], True), (["150.0.0.0/8", "9.0.0.0/8"], True), (["150.0.0.0/8"], False), (None, True)]
    cases, metas = [], []
    for nets, private in combos:
        for salt in (["s", "T5"] if q else ["s", "T5", "", "salt3", "zz", "x1", "x2", "x3"]):
            addrs = ["%d.%d.%d.%d" % (a, rng.randrange(256), rng.randrange(256), rng.randrange(1, 255)) for a in range(1, 224)]
            addrs += ["150.3.2.1", "10.9.8.7", "172.16.1.1", "172.31.255.254", "192.168.1.1", "9.1.2.3"]
            text = "".join("host %s\n" % a for a in addrs)
            opts = {"ip": True, "salt": salt, "networks": nets, "private": private, "hostbits": 0, "single": "r.cfg"}
            cases.append(["files", "main", json.dumps(opts), json.dumps([["r.cfg", base64.b64encode(text.encode()).decode(), {}]])])
            metas.append((nets, private, salt, addrs))
    outs = vlib.run_impl(cases)
    for c, out, (nets, private, salt, addrs) in zip(cases, outs, metas):
        allnets = [ipaddress.ip_network(x) for x in (nets or [])] + ([ipaddress.ip_network(x) for x in ("10.0.0.0/8", "172.16.0.0/12", "192.168.0.0/16")] if private else [])
        try:
            res = json.loads(out)
            got = [l.split()[1] for l in res["out"]["r.cfg"].splitlines()]
            assert len(got) == len(addrs) and not res["raised"]
        except Exception:
            ctx.fail("command-line run with preserved networks did not produce the expected file", {"argv_options": c[2]}, out[:300], label="impl-cli")
            continue
        for a, b in zip(addrs, got):
            n += 1
            ia, ib = ipaddress.ip_address(a), ipaddress.ip_address(b)
            for net in allnets:
                if ia in net and a != b:
                    ctx.fail("command line: address %s inside preserved network %s was changed to %s" % (a, net, b), {"options": json.loads(c[2])}, b, a, label="impl-cli")
                if ia not in net and ib in net:
                    ctx.fail("command line: address %s outside preserved network %s is mapped INTO it (%s)" % (a, net, b), {"options": json.loads(c[2])}, b, label="impl-cli")
    return n


def project_nets(c, out):
    """should_anonymize answers as they are; for anonymize requests only the membership of the image in each preserved network"""
    nets = ipref.nets_of(c[4])
    ops, res = ipgen.ops_of(c), out.split(" ")
    if len(ops) != len(res):
        return "ERR"
    return [r if op[0] == "s" else ([ipref.in_net(int(r), n) for n in nets] if r.isdigit() else "ERR") for op, r in zip(ops, res)]


def run(ctx):
    rng, q = ctx.rng, ctx.quick()
    masks = set()
    for k in range(33):
        masks.add((1 << k) - 1)
        masks.add(((1 << 32) - 1) ^ ((1 << k) - 1))
    vals = set(masks)
    for mk in list(masks):
        for i in range(32):
            vals.add(mk ^ (1 << i))
    for _ in range(300 if q else 20000):
        vals.add(rng.getrandbits(32))
        a, b = sorted((rng.randrange(33), rng.randrange(33)))
        vals.add(((1 << b) - 1) ^ ((1 << a) - 1))     # a block of ones in the middle
    vals = sorted(vals)
    chunk = 200
    mcases = [["ip4", "8", "tab:x", "-", "-", " ".join("m%d" % v for v in vals[i:i + chunk])] for i in range(0, len(vals), chunk)]
    m, i = ctx.correspond(mcases, label="is_mask")
    for c, out in zip(mcases, i):
        for op, r in zip(ipgen.ops_of(c), out.split(" ")):
            x = int(op[1:])
            if (r == "T") != ipref.is_mask_ref(x):
                ctx.fail("_is_mask(%d = %s) returned %s" % (x, format(x, "032b"), r), c[:-1] + [op], r, "T" if ipref.is_mask_ref(x) else "F", label="impl")
    # preserved networks: should_anonymize, images never collide, inverse images stay inside
    cases = []
    for _ in range(40 if q else 1000):
        addrs = rng.choice([a for a in ipgen.ADDR_LISTS if a != "-"] + [ipgen.rand_prefix_list(rng)])
        pfx = rng.choice(ipgen.PREFIX_LISTS)
        B = rng.choice(ipgen.B4)
        xs = ipgen.boundary_addrs(addrs) + ipgen.addrs_sharing(rng, 32, 4)
        for n in ipref.nets_of(addrs):
            a, l = n.split("/")
            xs.append(int(a) | (rng.getrandbits(32 - int(l)) if int(l) < 32 else 0))
        ops = ["s%d" % x for x in xs] + ["a%d" % x for x in xs]
        cases.append(["ip4", str(B), "md5:" + rng.choice(ipgen.SALTS), pfx, addrs, " ".join(ops)])
    m2, i2 = ctx.correspond(cases, project=project_nets, label="preserved-networks")
    gcases = [["gip4"] + c[1:] for c in cases if c[2].startswith("md5:")][: 10 if q else 200]      # executed by the generated code
    ctx.correspond(gcases, project=lambda c, o: project_nets(["ip4"] + c[1:], o), label="generated-code")
    nt = 0
    for c, out in zip(cases, i2):
        nets = ipref.nets_of(c[4])
        for op, r in zip(ipgen.ops_of(c), out.split(" ")):
            x = int(op[1:])
            inside = any(ipref.in_net(x, n) for n in nets)
            if op[0] == "s":
                exp = not (ipref.is_mask_ref(x) or inside)
                if (r == "T") != exp:
                    ctx.fail("should_anonymize(%d) = %s with preserved networks %s" % (x, r, nets), c[:-1] + [op], r, "T" if exp else "F", label="impl")
            elif r.isdigit():
                y = int(r)
                for n in nets:
                    if ipref.in_net(x, n) != ipref.in_net(y, n):
                        ctx.fail("%s maps %d (%s %s) to %d (%s it): collision with a preserved network" % (
                            "anonymize" if op[0] == "a" else "undo", x, "inside" if ipref.in_net(x, n) else "outside", n, y, "inside" if ipref.in_net(y, n) else "outside"),
                            c[:-1] + [op], r, label="impl")
                if not inside:
                    nt += 1
            else:
                ctx.fail("request %s raised" % op, c[:-1] + [op], r, label="impl")
    # text level: masks (every spelling, incl. leading zeros) and addresses inside preserved networks appear exactly as written
    from . import linegen, textgen
    tcases = []
    for nets, inside in [("P", ["10.1.2.3", "010.001.002.003", "172.16.0.1", "192.168.000.001", "10.255.255.255"]), (ipgen.net("1.2.3.4", 32) + ";" + ipgen.net("11.12.0.0", 16), ["1.2.3.4", "001.002.003.004", "11.12.13.14", "11.012.255.0"]),
                         ("-", [])]:
        for _ in range(2 if q else 20):
            lines = []
            for _k in range(6):
                toks = [rng.choice(linegen.V4_MASK + MASK_WITH_LEN + inside + ["8.8.8.8", "100.1.2.3"]) for _j in range(3)] + [rng.choice(linegen.ORDINARY)]
                rng.shuffle(toks)
                lines.append(linegen.mk_line(rng, toks))
            tcases.append((textgen.pipe(lines, flags="a", salt=rng.choice(ipgen.SALTS), nets=nets, b4=rng.choice([0, 8])), inside))
    tm, ti = ctx.correspond([c for c, _ in tcases], project=lambda c, o: textgen.norm(o), label="text-masks-preserved")
    for (c, inside), out in zip(tcases, ti):
        if out.startswith("RAISED"):
            ctx.fail("processing raised", c[:11], out, label="impl")
            continue
        for l, o in zip(c[11:], textgen.outlines(out)):
            for a, b in zip(l.split(), o.split()):
                core = a.strip("(),=")
                if (core in linegen.V4_MASK or core in MASK_WITH_LEN or core in inside) and a != b:
                    ctx.fail("%s %r is not left exactly as written: %r" % ("netmask/wildcard value" if (core in linegen.V4_MASK or core in MASK_WITH_LEN) else "address inside a preserved network", a, b), {"line": l, "networks": c[7]}, o, label="impl-text")
    n_cli = cli_preserved(ctx, rng, q)
    ctx.evaluations = n_cli + len(vals) + sum(len(ipgen.ops_of(c)) for c in cases) + sum(len(c) - 11 for c, _ in tcases)
    ctx.distinct_nontrivial = len(vals) + nt
    ctx.search_stats = {"mask_values": len(vals), "network_cases": len(cases), "outside_images_checked": nt}
    ctx.samples = [{"case": mcases[0][:5] + [mcases[0][5][:120] + " ..."], "impl": i[0][:60]}, {"case": cases[0], "impl": i2[0]}]
