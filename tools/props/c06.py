"""C06: address substitution in text is complete and exact."""
import ipaddress
from . import ipgen, linegen, textgen
from .textcommon import TEXT_MODEL_DEPS as MODEL_DEPS, TEXT_TRUSTED as TRUSTED_BASE, TEXT_ASSUMPTIONS as ASSUMPTIONS  # noqa

COQ_DEPS = ["lib/Rx.v", "lib/RxFacts.v", "lib/RxSub.v", "lib/Str.v", "lib/IpText.v", "gen/G_rx.v", "model/TextModel.v", "model/TextProofs.v"]
RULE = ("lines assembled from address tokens in every spelling (leading zeros, /len, upper-case hex, IPv4 tail), near-miss tokens, masks, ordinary vocabulary and every ASCII delimiter; "
        "exhaustive short strings over the boundary alphabet {0,1,2,5,6,9,.,:,/,a,f,g,G,%,space} (quick: length <= 4, thorough: <= 5); expected output from an independent token scanner + reference mapping; "
        "non-trivial = a distinct line containing at least one address-like token")

ALPHABET = "012569.:/afgG% "


def check(ctx, c, out, label):
    _, flags, salt, _, _, _, pfx, nets, b4, b6 = c[:10]
    lines = c[11:]
    if out.startswith("RAISED"):
        ctx.fail("processing raised %s" % out, c[:11] + ["<%d lines>" % len(lines)], out, label="raised")
        return 0
    outs = textgen.outlines(out)
    nt = 0
    if len(outs) != len(lines):
        ctx.fail("line count changed", c[:11], [len(lines), len(outs)], label=label)
        return 0
    for l, o in zip(lines, outs):
        exp, tail = linegen.expected_ip_line(l, salt, int(b4), int(b6), pfx, nets, undo="u" in flags)
        if linegen.v4_tokens(l) or linegen.v6_tokens(l):
            nt += 1
        if o != exp:
            ctx.fail("address substitution differs from the token scanner + reference mapping", {"line": l, "salt": salt, "b4": b4, "b6": b6, "prefixes": pfx, "networks": nets, "flags": flags},
                     o, exp, label=("v6-ipv4-tail-unlisted" if any(t in l for t in linegen.V6_TAIL_UNLISTED) else "v6-ipv4-tail") if tail else label)
    return nt


def run(ctx):
    rng, q = ctx.rng, ctx.quick()
    cases = []
    for _ in range(40 if q else 600):
        lines = linegen.ip_lines(rng, 12, tails=True)
        cases.append(textgen.pipe(lines, flags="a", salt=rng.choice(ipgen.SALTS), pfx=rng.choice(["-", "-", "D", ipgen.rand_prefix_list(rng)]),
                                  nets=rng.choice(["-", "-", "P", ipgen.net("1.2.3.4", 32)]), b4=rng.choice([8, 0, 8, 1, 24]), b6=rng.choice([8, 0, 64])))
    # exhaustive short strings, 400 per case
    shorts = [s + "\n" for s in linegen.short_strings(ALPHABET, 4 if q else 5)]
    if not q:
        rng.shuffle(shorts)
        shorts = shorts[:300000]
    for k in range(0, len(shorts), 400):
        cases.append(textgen.pipe(shorts[k:k + 400], flags="a", salt="s", b4=0, b6=0, pfx="0/0"))
    m, i = ctx.correspond(cases, project=lambda c, o: textgen.norm(o), label="ip-text")
    nt = sum(check(ctx, c, o, "impl") for c, o in zip(cases, i))
    ctx.evaluations = sum(len(c) - 11 for c in cases)
    ctx.distinct_nontrivial = nt
    ctx.search_stats = {"cases": len(cases), "lines": ctx.evaluations, "lines_with_address_tokens": nt, "short_strings": len(shorts)}
    ctx.samples = [textgen.sample(cases[0], i[0], 0), textgen.sample(cases[1], i[1], 1)]
