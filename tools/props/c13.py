"""C13: same salt, options and input give byte-identical output, always."""
import json
import os
import subprocess
import vlib
from . import c12, ipgen, secretlib, textgen
from .textcommon import TEXT_MODEL_DEPS as MODEL_DEPS, TEXT_TRUSTED as TRUSTED_BASE, TEXT_ASSUMPTIONS as ASSUMPTIONS  # noqa

COQ_DEPS = ["lib/Str.v", "model/TextModel.v", "model/TextProofs.v", "model/SortProofs.v"]
RULE = ("texts with every kind of sensitive item incl. $6$/$1$/$9$ secrets and word lists with prefixes of each other; each case is run in fresh interpreters under hash seeds 0,1,2 (quick) / 0-7 (thorough), "
        "twice under the same seed, after constructing unrelated anonymizers (other reserved words, preserved networks, salts, word lists) in the same process, and compared byte for byte with each other and "
        "with the model (which has no hash seed, clock or global state); salts incl. first characters outside the $9$ alphabet; no-salt runs: the reported salt reproduces the output; "
        "non-trivial = a distinct (text, options) case whose output differs from its input")

PRELUDE = r"""
import sys
import os
sys.path.insert(0, os.environ.get('NETCONAN_REPO', '/repo'))
from netconan.anonymize_files import FileAnonymizer
from netconan.ip_anonymization import IpAnonymizer
from netconan.sensitive_item_removal import SensitiveWordAnonymizer
import io
# unrelated anonymizers created earlier in the same process
FileAnonymizer(anon_pwd=True, anon_ip=True, salt='other', reserved_words=['Seattle-core', 'KAYAK1', 'RemoveMe', 'seattle'], sensitive_words=['core', 'lab'],
               preserve_networks=['11.22.0.0/16', '1.2.3.0/24', '10.0.0.0/8'], as_numbers=['65001'], preserve_suffix_v4=3, preserve_suffix_v6=77)
a = IpAnonymizer('zzz', None, ['8.8.0.0/16', '203.0.113.0/24'])
a.anonymize(167837953)
x = FileAnonymizer(anon_pwd=True, anon_ip=False, salt='third')
x.anonymize_io(io.StringIO('password RemoveMe\nenable secret 5 $1$abcd$0rN7abcdefghijklmnopqr\n'), io.StringIO())
# ... and anonymizers that already replaced the very words / numbers / addresses the cases contain, under other salts
for _salt in ('tenantA', 'tenantB'):
    y = FileAnonymizer(anon_pwd=True, anon_ip=True, salt=_salt, sensitive_words=['sea', 'seattle', 'seattle-core', 'kayak', 'kay', 'k'], as_numbers=['65001', '650010', '64512'])
    y.anonymize_io(io.StringIO('hostname seattle-core KAYAK1 xseattlex kayak Seattle sea\nrouter bgp 65001 neighbor 1.2.3.4 remote-as 650010 64512\nip address 10.0.0.1 192.168.1.77 2001:db8::1\nusername u password RemoveMe\n'), io.StringIO())
del y
"""


def run(ctx):
    rng, q = ctx.rng, ctx.quick()
    cases = []
    for _ in range(12 if q else 150):
        text = [l if l.endswith("\n") else l + "\n" for l, _ in c12.build_text(rng, 8)]
        for cls in ("sha512", "md5", "juniper", "type7"):
            tpl, _s = rng.choice(secretlib.SINGLE)
            text.append(secretlib.build(tpl, textgen.make_secret(rng, cls)))
        cases.append(textgen.pipe(text, flags="pa", salt=rng.choice(ipgen.SALTS + ["#site-salt", "_x", "é1", "%"]), words=rng.choice([["sea", "seattle", "seattle-core"], ["kayak", "kay", "k"], None]),
                                  asnums=rng.choice([["65001", "650010"], None]), reserved=rng.choice([None, ["Seattle-core"]]), nets=rng.choice(["-", "P"])))
    def project(c, o):
        """does the run complete (the byte-level comparison that decides C13 is implementation vs implementation across processes, seeds and earlier anonymizers; exact agreement with the model is reported as raw drift)"""
        return "RAISED" if o.startswith("RAISED") else "completed"
    m, i0 = ctx.correspond(cases, project=project, label="seed0")
    seeds = [1, 2] if q else [1, 2, 3, 4, 5, 6, 7]
    nt = sum(1 for c, o in zip(cases, i0) if "".join(c[11:]) != "".join(textgen.outlines(o)))
    for hs in seeds + [0]:
        ih = vlib.run_impl(cases, hashseed=hs, jobs=4)
        for c, a, b in zip(cases, i0, ih):
            if a != b:
                la, lb = textgen.outlines(a), textgen.outlines(b)
                k = next((j for j in range(min(len(la), len(lb))) if la[j] != lb[j]), 0)
                ctx.fail("output differs between two processes (PYTHONHASHSEED 0 vs %d)" % hs, {"line": c[11 + k] if 11 + k < len(c) else None, "salt": c[2], "words": c[3], "flags": c[1]},
                         {"first": la[k] if k < len(la) else a[:100], "second": lb[k] if k < len(lb) else b[:100]}, label="impl")
    # word lists whose entries act as regexes (netconan does not escape them) with EQUAL length and overlapping matches: the alternation order must not depend on the hash seed
    rx_cases = [textgen.pipe(["hostname site1001 site100 sitex99\n", "description link to lab-7 lab07 labs7\n"], flags="", salt="s", words=w)
                for w in (["site100", "site\\d+"], ["lab.7", "lab-7", "lab07", "lab\\w7"], ["site1..", "site10+", "sit.100"])]
    base = vlib.run_impl_fresh(rx_cases, hashseed="0")
    for hs in range(1, 9 if q else 25):
        for c, a, b in zip(rx_cases, base, vlib.run_impl_fresh(rx_cases, hashseed=str(hs), jobs=3)):
            if a != b:
                ctx.fail("output differs between two processes (PYTHONHASHSEED 0 vs %d) for a word list with regex-like entries of equal length" % hs,
                         {"words": c[3], "lines": c[11:]}, {"seed0": a[:200], "seed%d" % hs: b[:200]}, label="impl")
    # after unrelated anonymizers were constructed in the same process
    env = dict(os.environ, PYTHONPATH=vlib.REPO, PYTHONHASHSEED="0", NV_PRELUDE=PRELUDE)
    p = subprocess.run([vlib.PY, "-c", "import os,sys,json,runpy\nexec(os.environ['NV_PRELUDE'])\nsys.argv=['impl_run.py']\nrunpy.run_path('%s', run_name='__main__')" % os.path.join(vlib.VERIF, "tools", "impl_run.py")],
                       input=json.dumps(cases), capture_output=True, text=True, env=env, cwd="/", timeout=1200)
    try:
        ip = json.loads(p.stdout)
    except Exception:
        ip = None
        ctx.fail("run after constructing unrelated anonymizers crashed", {}, (p.stdout + p.stderr)[-400:], label="impl")
    if ip:
        for c, a, b in zip(cases, i0, ip):
            if a != b:
                la, lb = textgen.outlines(a), textgen.outlines(b)
                k = next((j for j in range(min(len(la), len(lb))) if la[j] != lb[j]), 0)
                ctx.fail("output depends on anonymizers created earlier in the same process", {"line": c[11 + k] if 11 + k < len(c) else None, "salt": c[2], "words": c[3], "reserved": c[5], "networks": c[7]},
                         {"fresh_process": la[k] if k < len(la) else a[:100], "after_others": lb[k] if k < len(lb) else b[:100]}, label="impl")
    # no salt given: the generated salt is reported and reproduces the output
    code = r"""
import sys, io, json, logging
import os
sys.path.insert(0, os.environ.get('NETCONAN_REPO', '/repo'))
from netconan.anonymize_files import FileAnonymizer
recs = []
class H(logging.Handler):
    def emit(self, r): recs.append((r.levelname, r.getMessage()))
logging.getLogger().addHandler(H()); logging.getLogger().setLevel(logging.INFO)
text = sys.stdin.read()
fa = FileAnonymizer(anon_pwd=True, anon_ip=True, salt=None, sensitive_words=['seattle'], as_numbers=['65001'])
o = io.StringIO(); fa.anonymize_io(io.StringIO(text), o)
print(json.dumps({'out': o.getvalue(), 'salt': fa.salt, 'records': recs}))
"""
    text = ("ip 1.2.3.4 seattle 2001:db8::1\nhost 10.9.8.7\nrouter bgp 65001\nset system tacplus-server 9.9.9.9 secret \"%s\"\nusername x password 7 0822455D0A16\n"
            "snmp-server community RemoveMeComm RO\nauthentication-key \"%s\";\n" % (textgen.ref_encrypt9("hunter2", "Q"), textgen.ref_encrypt9("other-key", "z")))
    r1 = subprocess.run([vlib.PY, "-c", code], input=text, capture_output=True, text=True, env=dict(os.environ, PYTHONPATH=vlib.REPO), cwd="/")
    try:
        d = json.loads(r1.stdout)
        if not any(lv == "WARNING" and d["salt"] in msg for lv, msg in d["records"]):
            ctx.fail("the randomly generated salt is not reported (WARNING record)", {}, d["records"], label="impl")
        o2 = vlib.run_impl([textgen.pipe(text.splitlines(True), flags="pa", salt=d["salt"], words=["seattle"], asnums=["65001"], b4=0, b6=0)])[0]
        if "".join(textgen.outlines(o2)) != d["out"]:
            ctx.fail("re-running with the reported salt does not reproduce the output", {"salt": d["salt"]}, o2[:200], d["out"][:200], label="impl")
        if len(d["salt"]) != 16 or not d["salt"].isalnum():
            ctx.fail("generated salt is not 16 alphanumeric characters", {}, d["salt"], label="impl")
    except Exception as e:
        ctx.fail("no-salt run crashed: %s" % e, {}, (r1.stdout + r1.stderr)[-300:], label="impl")
    ctx.evaluations = len(cases) * (len(seeds) + 3) + 2
    ctx.distinct_nontrivial = nt
    ctx.search_stats = {"cases": len(cases), "hash_seeds": [0] + seeds, "after_unrelated_anonymizers": bool(ip), "cases_changed_by_anonymization": nt}
    ctx.samples = [textgen.sample(cases[0], i0[0], 0)]
