"""C18: Juniper $9$ codec round trip, well-formedness, malformed input refused with ValueError."""
import vlib

COQ_DEPS = ["lib/Str.v", "gen/G_juniper.v", "model/JunModel.v", "model/JunProofs.v", "lib/PyLib.v", "lib/PyRe.v", "gen/G_fn_jun.v", "refine/RefJun.v", "refine/RefJunEnc.v", "refine/RefJunDec.v", "lib/Rx.v", "lib/RxFacts.v", "lib/RxSub.v", "lib/RxComplete.v"]
MODEL_DEPS = COQ_DEPS + ["model/DriverJun.v", "model/DriverFn.v", "model/Driver.v", "model/Extract.v"]
TRUSTED_BASE = [
    "Coq 8.16.1 kernel; vm_compute for the finite sweeps over the generated tables (7 rows x 65 previous characters x 256 code points; table sanity facts), lifted with forallb_forall",
    "axioms: none",
    "gen/G_juniper.v: FAMILY, NUM_ALPHA, ALPHA_NUM, EXTRA, ENCODING, MAGIC, _fixedc(0..4) read from the imported module on every run",
    "gen/G_fn_jun.v: all seven functions of utils/juniper_secrets.py translated to Gallina on every run (tools/translate.py); per-character functions proved equal to the hand model on their finite domain, loops compared by correspondence", "hand-written model model/JunModel.v of juniper_decrypt / juniper_nonrandom_encrypt / _gap_encode / _gap / _gap_decode / _nibble, tied by this check's correspondence run; VALID is modelled by hand (prefix, length >= 4, alphabet) and compared with re.search through the malformed stream",
]
ASSUMPTIONS = ["plaintext code points 0..255 (the property's domain); larger code points are outside the theorem"]
RULE = ("encrypt+decrypt for every (salt character in the 65-alphabet, position 0-7, code point 0-255) [quick: a seeded 1/16 sample, thorough: all], random plaintexts to length 200, "
        "arbitrary salt strings (empty, None-like, outside the alphabet, non-ASCII); malformed stream: wrong alphabet, truncated groups at every cut, trailing newline, short bodies; "
        "independent decoder as oracle; non-trivial = distinct (plaintext, salt) pair or malformed string")

FAM = ["QzF3n6/9CAtpu0O", "B1IREhcSyrleKvMW8LXx", "7N-dVbwsY2g4oaJZGUDj", "iHkq.mPf5T"]
ALPHA = "".join(FAM)
ROWS = [[1, 4, 32], [1, 16, 32], [1, 8, 32], [1, 64], [1, 32], [1, 4, 16, 128], [1, 32, 64]]


def ref_decrypt(s):
    """independent decoder written from the Crypt::Juniper description; 'ValueError' for anything malformed"""
    if not s.startswith("$9$"):
        return "ValueError"
    body = s[3:]
    if len(body) < 4 or any(c not in ALPHA for c in body):
        return "ValueError"
    first = body[0]
    extra = 3 - next(i for i, f in enumerate(FAM) if first in f)
    body = body[1 + extra:]
    prev, out = first, []
    while body:
        row = ROWS[len(out) % 7]
        nib, body = body[: len(row)], body[len(row):]
        if len(nib) != len(row):
            return "ValueError"
        v = 0
        for ch, w in zip(nib, row):
            v += ((ALPHA.index(ch) - ALPHA.index(prev)) % 65 - 1) * w
            prev = ch
        out.append(chr(v % 256))
    return "OK:" + "".join(out)


def run(ctx):
    rng, q = ctx.rng, ctx.quick()
    enc = []
    for s in ALPHA:
        for pos in range(8):
            for c in range(256):
                if q and rng.random() > 1 / 16:
                    continue
                enc.append(["jenc", "A" * pos + chr(c), s])
    salts = ["", "Q", "_x", "é", "\U0001f600z", "netconan", "0", " ", "$", "\n", "zz", "T"]
    for _ in range(300 if q else 5000):
        n = rng.choice([0, 1, 2, 3, 7, 8, 20, 50, 200]) if rng.random() < 0.5 else rng.randrange(0, 40)
        plain = "".join(chr(rng.randrange(256)) for _ in range(n))
        enc.append(["jenc", plain, rng.choice(salts + list(ALPHA))])
    for s in salts + list(ALPHA):
        enc.append(["jenc", "", s])
    m, i = ctx.correspond(enc, label="encrypt")
    # the code GENERATED from utils/juniper_secrets.py by the function-level translator, on a sample of the same cases
    genc = [["gjenc"] + c[1:] for c in (enc if len(enc) < 3000 else rng.sample(enc, 3000))]
    ctx.correspond(genc, label="generated-code-encrypt")
    dec = []
    for c, out in zip(enc, i):
        if not out.startswith("OK:"):
            ctx.fail("encrypt raised %s" % out, c, out, label="impl")
            continue
        crypt = out[3:]
        if not crypt.startswith("$9$") or len(crypt) < 4 or any(ch not in ALPHA for ch in crypt[3:]):
            ctx.fail("encrypt output is not a well-formed $9$ string", c, out, label="impl")
        dec.append((c, ["jdec", crypt]))
    # malformed stream
    mal = []
    good = [o[3:] for o in i if o.startswith("OK:") and len(o) > 12]
    for _ in range(300 if q else 6000):
        g = rng.choice(good)
        k = rng.randrange(6)
        if k == 0:
            s = g[: rng.randrange(0, len(g))]                       # truncation at any cut
        elif k == 1:
            p = rng.randrange(3, len(g))
            # wrong / changed character: ASCII punctuation, Latin-1, and characters that Unicode-aware classes (\d, \w, isalnum) take for digits or letters
            s = g[:p] + rng.choice("!_ $\né\\*Az" + "٣３௧۵ªßΩ") + g[p + 1:]
        elif k == 2:
            s = g + rng.choice(["\n", " ", "\r\n", "\n\n", "Q", "$"])
        elif k == 3:
            s = rng.choice(["", "$9$", "$9", "$1$abc", "$9$abc", "9$Qnetabc", " $9$Qnetabc", "$9$" + "Q" * rng.randrange(0, 6)])
        elif k == 4:
            s = "$9$" + "".join(rng.choice(ALPHA) for _ in range(rng.randrange(0, 30)))   # alphabet-only bodies: valid or truncated
        else:
            s = "".join(rng.choice(ALPHA + "$9 \n") for _ in range(rng.randrange(0, 12)))
        mal.append(["jdec", s])
    dcases = [d for _, d in dec] + mal
    m2, i2 = ctx.correspond(dcases, label="decrypt")
    gdec = [["gjdec"] + c[1:] for c in (dcases if len(dcases) < 3000 else rng.sample(dcases, 3000))]
    ctx.correspond(gdec, label="generated-code-decrypt")
    for (c, d), out in zip(dec, i2[: len(dec)]):
        if out != "OK:" + c[1]:
            if c[1] == "":
                ctx.fail("empty plaintext does not round-trip: encrypt('', %r) = %r is refused by the decoder" % (c[2], d[1]), c, out, "OK:", label="roundtrip-empty")
            else:
                ctx.fail("decrypt(encrypt(p, salt)) != p", c, {"crypt": d[1], "decrypted": out[:80]}, "OK:" + c[1][:80], label="roundtrip")
    for d, out in zip(mal, i2[len(dec):]):
        exp = ref_decrypt(d[1])
        if out != exp:
            ctx.fail("decrypt(%r) gives %s; an independent decoder gives %s" % (d[1], out[:60], exp[:60]), d, out[:200], exp[:200], label="malformed")
    ctx.evaluations = len(enc) + len(dcases)
    ctx.distinct_nontrivial = len({(c[1], c[2]) for c in enc}) + len({d[1] for d in mal})
    ctx.search_stats = {"encrypt_cases": len(enc), "roundtrips": len(dec), "malformed": len(mal),
                        "malformed_refused": sum(1 for o in i2[len(dec):] if o == "ValueError")}
    ctx.samples = [{"case": enc[0], "impl": i[0]}, {"case": enc[-1], "impl": i[-1]}, {"case": mal[0], "impl": i2[len(dec)]}, {"case": mal[1], "impl": i2[len(dec) + 1]}]
