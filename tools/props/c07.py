"""C07: no part of a secret survives -- output and INFO+ logs are independent of secret content."""
import re
from . import secretlib, textgen, linegen
from .textcommon import TEXT_MODEL_DEPS as MODEL_DEPS, TEXT_TRUSTED as TRUSTED_BASE, TEXT_ASSUMPTIONS as ASSUMPTIONS  # noqa

COQ_DEPS = ["lib/Alloc.v", "lib/Str.v", "lib/Rx.v", "lib/RxFacts.v", "lib/RxSub.v", "gen/G_rx.v", "gen/G_text_consts.v", "model/TextModel.v", "model/TextProofs.v", "model/ValueProofs.v", "model/Findings.v"]
RULE = ("paired runs: the same sequence of recognised line forms (every single-secret template, optional parts, indentation, quoting, trailing context) with two assignments of secret values that have the same format "
        "class (and md5 salt length, $9$ validity) and the same equality pattern; output lines and log records at INFO and above must be identical; plus standalone $1$/$9$ tokens between arbitrary keywords; "
        "non-trivial = a pair of runs whose secret assignments differ")


USED = set()       # keys (decrypted plaintext for $9$, the string otherwise) of every secret handed out in the current pair of runs


def mk(rng, cls, variant=None):
    """a fresh secret of class cls that is not THE SAME SECRET as any other of this pair of runs (two $9$ strings with one plaintext are one secret)"""
    while True:
        t = textgen.make_secret(rng, cls, variant)
        k = secretlib.secret_key(t)
        if k not in USED and t not in USED:
            USED.add(k)
            USED.add(t)
            return t


def present_as_token(secret, line):
    """the secret stands in the line as a token of its own (a replacement that merely begins with the same characters, as two $9$ strings under one
    salt character do, is not the secret)"""
    return any(tok.strip("\"';,[]{}") == secret or tok == secret for tok in line.split())


def renamed(rng, s, mapping):
    if s not in mapping:
        while True:
            t = mk(rng, textgen.classify(s), textgen.same_class_variant(s))
            if (":" in t) == (":" in s):        # line forms such as community-map <name>:<index> end the secret at a colon: keep colon-freeness
                break
        mapping[s] = t
    return mapping[s]


def run(ctx):
    rng, q = ctx.rng, ctx.quick()
    pairs = []
    tpls = list(secretlib.SINGLE)
    per = 12
    groups = [tpls[k:k + per] for k in range(0, len(tpls), per)] * (1 if q else 8)
    for g in groups:
        USED.clear()
        pool = [mk(rng, cls) for cls in textgen.CLASSES for _ in range(2)]
        la, lb, ms, mp = [], [], [], {}
        for tpl, sample in g:
            s = rng.choice(pool + [mk(rng, textgen.classify(sample))])
            while (tpl.startswith("set community") and textgen.classify(s) == "numeric") or ("community-map" in tpl and ":" in s):
                # numeric BGP communities are skipped on purpose; in the community-map form the name ends at the first ':' (name:index)
                s = rng.choice(pool + [mk(rng, "text")])
            enc = rng.choice(secretlib.ENCLOSE[:7]) if '"' not in tpl and rng.random() < 0.3 else ("", "")
            ind, tr = rng.choice(["", " ", "    "]), rng.choice(["", " trailing", " "])
            if "{} " in tpl + " " and tr == " trailing" and tpl.endswith("{}") is False:
                tr = ""
            s2 = renamed(rng, s, mp)
            la.append(secretlib.build(tpl, s, ind, tr, enc))
            lb.append(secretlib.build(tpl, s2, ind, tr, enc))
            ms.append((tpl, s, s2, enc, tr))
        # md5-crypt secrets whose salt field is longer than the 8 characters md5-crypt uses
        for tpl in ("enable secret 5 {}", "username Someone secret 5 {}"):
            s = "$1$" + "".join(rng.choice(textgen.MD5CHARS) for _ in range(rng.choice([9, 10, 12]))) + "$" + "".join(rng.choice(textgen.MD5CHARS) for _ in range(22))
            s2 = "$1$" + "".join(rng.choice(textgen.MD5CHARS) for _ in range(len(s.split("$")[2]))) + "$" + "".join(rng.choice(textgen.MD5CHARS) for _ in range(22))
            la.append(secretlib.build(tpl, s))
            lb.append(secretlib.build(tpl, s2))
            ms.append((tpl, s, s2, ("", ""), ""))
        # standalone hash-shaped tokens surrounded by arbitrary keywords
        for cls in ("md5", "juniper"):
            s = mk(rng, cls)
            s2 = renamed(rng, s, mp)
            kw = " ".join(rng.choice(linegen.ORDINARY) for _ in range(2))
            la.append("%s %s %s\n" % (kw, s, rng.choice(linegen.ORDINARY)))
            lb.append("%s %s %s\n" % (kw, s2, rng.choice([la[-1].split()[-1]])))
            ms.append(("standalone", s, s2, ("", ""), ""))
        # optional parts of the line forms (privilege / level numbers) in front of the secret
        for tpl in ("enable secret level 15 5 {}", "username bob privilege 15 secret 5 {}", "enable password level 7 {}", "standby 3 authentication md5 key-string 7 {}"):
            cls = "md5" if " 5 {}" in tpl else "type7" if " 7 {}" in tpl else "text"
            s = mk(rng, cls)
            s2 = renamed(rng, s, mp)
            la.append(secretlib.build(tpl, s))
            lb.append(secretlib.build(tpl, s2))
            ms.append((tpl, s, s2, ("", ""), ""))
        # every line form that has text AFTER the secret, with an all-digit and a hexadecimal secret
        for tpl, sample in g:
            if tpl.rstrip().endswith("{}") or '"' in tpl or tpl.startswith("set community"):
                continue
            for cls in ("numeric", "hex"):
                s = mk(rng, cls)
                s2 = renamed(rng, s, mp)
                la.append(secretlib.build(tpl, s))
                lb.append(secretlib.build(tpl, s2))
                ms.append((tpl, s, s2, ("", ""), " (template has trailing text)"))
        # secrets that are a reserved word in ANOTHER letter case: not reserved words (the list is matched as given), so they are secrets like any other
        for tpl, sec in (("enable password {}", "Cisco"), ("snmp-server community {} RO", "ADMIN"), ("username ops password {}", "Private"), ("enable password {}", "Management")):
            if sec.lower() not in textgen.reserved_words() or sec in textgen.reserved_words():
                continue
            s2 = "".join(rng.choice("ghijkmnopq") for _ in sec)
            la.append(secretlib.build(tpl, sec))
            lb.append(secretlib.build(tpl, s2))
            ms.append((tpl, sec, s2, ("", ""), ""))
        # the AWS forms: a 32-character field
        for tpl in secretlib.AWS:
            s = "".join(rng.choice(textgen.MD5CHARS[:62] + "_") for _ in range(32))
            s2 = "".join(rng.choice(textgen.MD5CHARS[:62] + "_") for _ in range(32))
            ind = rng.choice(["", "  ", "\t\t"])
            la.append(ind + tpl.replace("{}", s) + "\n")
            lb.append(ind + tpl.replace("{}", s2) + "\n")
            ms.append((tpl, s, s2, ("", ""), ""))
        # two secrets recognised by the SAME pattern on one line (compact one-line blocks)
        for tpl in ("username alice password {} ; username bob password {}", "radius-server {{ 10.0.0.1 secret \"{}\"; 10.0.0.2 secret \"{}\"; }}",
                    "domain-password {} ; area-password {}", "snmp-server community {} RO ; snmp-server community {} RW"):
            a, b = mk(rng, "text"), mk(rng, "text")
            a2, b2 = renamed(rng, a, mp), renamed(rng, b, mp)
            la.append(tpl.replace("{{", "{").replace("}}", "}").replace("{}", a, 1).replace("{}", b, 1) + "\n")
            lb.append(tpl.replace("{{", "{").replace("}}", "}").replace("{}", a2, 1).replace("{}", b2, 1) + "\n")
            ms.append((tpl, a, a2, ("", ""), ""))
            la.append("!\n"), lb.append("!\n"), ms.append(("second-of-two", b, b2, ("", ""), la[-2]))
        # line forms that carry TWO secrets of different kinds, one of them hash-shaped: the keyword pattern group has to claim the line before a catch-all does
        for tpl, c1, c2 in (("set session-key outbound esp 256 cipher {} authenticator {}", "text", "md5"),
                            ("snmp-server user ops admins v3 auth md5 {} priv aes 128 {}", "md5", "text"),
                            ("set session-key inbound esp 256 cipher {} authenticator {}", "text", "juniper")):
            a, b = mk(rng, c1), mk(rng, c2)
            a2, b2 = renamed(rng, a, mp), renamed(rng, b, mp)
            la.append(tpl.replace("{}", a, 1).replace("{}", b, 1) + "\n")
            lb.append(tpl.replace("{}", a2, 1).replace("{}", b2, 1) + "\n")
            ms.append((tpl, a if c1 == "text" else b, a2 if c1 == "text" else b2, ("", ""), ""))
        salt = rng.choice(["s", "Q", "", "xyz"])
        pairs.append((textgen.pipe(la, flags="pl", salt=salt), textgen.pipe(lb, flags="pl", salt=salt), ms))
    cases = [p[0] for p in pairs] + [p[1] for p in pairs]
    m, i = ctx.correspond(cases, project=lambda c, o: textgen.norm(o.split("\x05")[0]), label="paired-runs")
    n = len(pairs)
    nt = 0
    for k, (ca, cb, ms) in enumerate(pairs):
        oa, ob = i[k], i[n + k]
        if oa.startswith("RAISED") or ob.startswith("RAISED"):
            ctx.fail("processing raised", ca[:11], [oa[:100], ob[:100]], label="raised")
            continue
        nt += 1
        la, lb = textgen.outlines(oa.split("\x05")[0]), textgen.outlines(ob.split("\x05")[0])
        for j, (x, y, (tpl, s, s2, enc, tr)) in enumerate(zip(la, lb, ms)):
            lab = "impl"
            if textgen.classify(s) == "numeric" and tr.strip() and re.search(r"(password|passwd) (level \d+ )?(\d+ )?\{\}$", tpl):
                lab = "numeric-then-word"            # D11
            if tpl.startswith("snmp-server community {} RO ; snmp-server"):
                lab = "greedy-prefix-two-secrets"    # D19
            if tpl == "enable secret level 15 5 {}":
                lab = "reserved-word-captured"       # D12
            if x != y:
                ctx.fail("output depends on the secret's content: same line form, secrets %r / %r of the same class" % (s, s2), {"template": tpl, "line_a": ca[11 + j], "line_b": cb[11 + j]}, [x, y], label=lab)
            elif tpl == "second-of-two":
                if len(s) >= 4 and present_as_token(s, la[j - 1]):
                    ctx.fail("the second of two secrets recognised by one pattern on a line is still present in the output", {"line": ca[11 + j - 1]}, la[j - 1], label="impl")
            elif len(s) >= 4 and present_as_token(s, x) and not secretlib.SCRUB in x:
                ctx.fail("the secret value is still present in the output", {"template": tpl, "line": ca[11 + j]}, x, label=lab)
        ga, gb = oa.split("\x05")[1:], ob.split("\x05")[1:]
        if ga != gb:
            ctx.fail("log records at INFO or above differ between two runs that differ only in secret values", ca[:3], [ga[:1], gb[:1]], label="impl-log")
    ctx.evaluations = len(cases)
    ctx.distinct_nontrivial = nt
    ctx.search_stats = {"paired_runs": n, "lines_per_run": per + 2}
    ctx.samples = [{"line_a": pairs[0][0][11], "line_b": pairs[0][1][11], "impl_a": textgen.sample(pairs[0][0], i[0])["impl"], "impl_b": textgen.sample(pairs[0][1], i[n])["impl"]}]
