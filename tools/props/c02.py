"""C02: exact reversibility -- undo by a cold instance, undo/redo round trips, any warm history.
Each side (model, implementation) round-trips ITS OWN images; what is compared is whether the round trips close."""
import random
import vlib
from . import ipgen
from .ipcommon import MODEL_DEPS, TRUSTED_BASE, ASSUMPTIONS  # noqa

COQ_DEPS = ["lib/PPCore.v", "lib/PPHost.v", "lib/Memo.v", "lib/MemoProofs.v", "lib/PyLib.v", "gen/G_fn_ip.v", "refine/RefIpCommon.v", "refine/RefDeanon.v"]
RULE = ("phase 1: a first instance anonymizes structured addresses; phase 2: a NEW instance (cold memo) with the same salt/options undoes the images and "
        "re-anonymizes the results; plus warm mixed histories where every request is followed by the opposite request on its answer; small widths exhaustive; "
        "non-trivial = a cold undo of an image that differs from its original")


def cold_phase(side, fwd, shuffle_seed):
    """returns (cold cases, per-case list of booleans 'round trip closed', raw outputs, #nontrivial)"""
    imgs = side(fwd)
    cold, exp = [], []
    for k, (c, out) in enumerate(zip(fwd, imgs)):
        ops, res = ipgen.ops_of(c), out.split(" ")
        if len(res) != len(ops) or not all(r.isdigit() for r in res):
            cold.append(None)
            exp.append(None)
            continue
        xs, ys = [o[1:] for o in ops], res
        order = list(range(len(ys)))
        random.Random("%s:%d" % (shuffle_seed, k)).shuffle(order)
        cold.append(c[:-1] + [" ".join(["d" + ys[i] for i in order] + ["a" + xs[i] for i in order])])
        exp.append([xs[i] for i in order] + [ys[i] for i in order])
    outs = side([c for c in cold if c is not None])
    it = iter(outs)
    closed, raw, nt = [], [], 0
    for c, e in zip(cold, exp):
        if c is None:
            closed.append("ERR-PHASE1")
            raw.append(None)
            continue
        o = next(it)
        raw.append(o)
        got = o.split(" ")
        closed.append([g == x for g, x in zip(got, e)] if len(got) == len(e) else "ERR")
        nt += sum(1 for a, b in zip(e[: len(e) // 2], e[len(e) // 2:]) if a != b)
    return cold, closed, raw, exp, nt


def warm_phase(side, warm0):
    first = side(warm0)
    warm = []
    for c, out in zip(warm0, first):
        ops, res = ipgen.ops_of(c), out.split(" ")
        if len(ops) != len(res) or not all(r.isdigit() for r in res):
            warm.append(None)
            continue
        seq = []
        for o, r in zip(ops, res):
            seq += [o, ("d" if o[0] == "a" else "a") + r]
        warm.append(c[:-1] + [" ".join(seq)])
    outs = iter(side([c for c in warm if c is not None]))
    closed, raw = [], []
    for c in warm:
        if c is None:
            closed.append("ERR-PHASE1")
            raw.append(None)
            continue
        o = next(outs)
        raw.append(o)
        ops, res = ipgen.ops_of(c), o.split(" ")
        closed.append([res[k + 1] == ops[k][1:] for k in range(0, len(ops) - 1, 2)] if len(ops) == len(res) else "ERR")
    return warm, closed, raw


def long_round_trip(ctx, rng, q):
    """a long run on ONE anonymizer (tens of thousands of distinct addresses), then undo of early and late images by a FRESH anonymizer with the same
    salt and options: whatever the first instance did to its tables on the way, the second must get every original back"""
    n = 0
    for N, B in ((30000 if q else 90000, 8),):
        c = ipgen.long_history(rng, N, B=B, pfx="D")
        ops = ipgen.ops_of(c)[:-200]
        res = vlib.run_impl([c[:-1] + [" ".join(ops)]])[0].split(" ")
        if len(res) != len(ops) or not all(r.isdigit() for r in res):
            ctx.fail("anonymize raised in a long run", c[:-1] + ["<%d requests>" % len(ops)], " ".join(res)[:200], label="impl-long")
            continue
        ks = list(range(0, 300)) + list(range(len(ops) - 300, len(ops)))
        back = vlib.run_impl([c[:-1] + [" ".join("d" + res[k] for k in ks)]])[0].split(" ")
        for k, b in zip(ks, back):
            n += 1
            if b != ops[k][1:]:
                ctx.fail("address %s was anonymized to %s as request %d of a long run; a fresh anonymizer (same salt and options) undoes that to %s" % (ops[k][1:], res[k], k, b),
                         c[:-1] + ["<%d distinct addresses>" % len(ops)], b, ops[k][1:], label="impl-long")
                break
    return n


def run(ctx):
    rng, q = ctx.rng, ctx.quick()
    fwd = ipgen.small_cases(rng, 4 if q else 25)
    fwd += [ipgen.ip4_case(rng) for _ in range(50 if q else 1200)]
    for pfx in ipgen.PREFIX_LISTS:
        for B in (0, 8):
            fwd.append(ipgen.ip4_case(rng, pfx=pfx, B=B))
    fwd += [ipgen.ip6_case(rng) for _ in range(8 if q else 250)]
    warm0 = ipgen.small_cases(rng, 3 if q else 20, dirs="ad")
    warm0 += [ipgen.ip4_case(rng, dirs="ad") for _ in range(30 if q else 600)]
    warm0 += [ipgen.ip6_case(rng, dirs="ad") for _ in range(3 if q else 60)]

    # the code GENERATED from the source (function-level translator) against the implementation, full outputs, small widths
    gen_cases = [["gbase"] + c[1:] for c in warm0 if c[0] == "base"]
    if ctx.model_ok:
        gm, gi = vlib.run_model(gen_cases), vlib.run_impl(gen_cases)
        ctx.advisory_cases += len(gen_cases)
        ctx.corr_stats["generated_code"] = {"cases": len(gen_cases), "disagreements": sum(1 for a, b in zip(gm, gi) if a != b)}
        for c, a, b in zip(gen_cases, gm, gi):
            if a != b and len(ctx.advisory_disagreements) < 20:
                ctx.advisory_disagreements.append({"case": c, "model": a[:300], "impl": b[:300], "label": "generated-code (anonymize/deanonymize translated from the source)"})
    cold_i, closed_i, raw_i, exp_i, nt = cold_phase(vlib.run_impl, fwd, ctx.seed)
    warm_i, wclosed_i, wraw_i = warm_phase(vlib.run_impl, warm0)
    if ctx.model_ok:
        cold_m, closed_m, raw_m, exp_m, _ = cold_phase(vlib.run_model, fwd, ctx.seed)
        warm_m, wclosed_m, wraw_m = warm_phase(vlib.run_model, warm0)
        nd = drift = 0
        for lab, cs, a, b, ra, rb in (("cold-undo", fwd, closed_m, closed_i, raw_m, raw_i), ("warm-roundtrip", warm0, wclosed_m, wclosed_i, wraw_m, wraw_i)):
            for c, x, y, rx, ry in zip(cs, a, b, ra, rb):
                if x != y:
                    nd += 1
                    if len(ctx.disagreements) < 20:
                        ctx.disagreements.append({"case": c, "label": lab, "model_roundtrips_closed": str(x)[:300], "impl_roundtrips_closed": str(y)[:300], "model": str(rx)[:500], "impl": str(ry)[:500]})
                elif rx != ry:
                    drift += 1
        ctx.corr_stats.update({"cases": len(fwd) + len(warm0), "disagreements": nd, "raw_output_drift": drift,
                               "projection": "per address: does undo(anonymize(x)) on a cold instance return x and anonymize(undo(y)) return y (each side on its own images)"})
    for c, cl, raw, e in zip(cold_i, closed_i, raw_i, exp_i):
        if cl == "ERR-PHASE1":
            continue          # anonymize itself raised: C01's business
        if cl == "ERR" or not all(cl):
            k = cl.index(False) if cl != "ERR" else 0
            ops, got = ipgen.ops_of(c), raw.split(" ")
            ctx.fail("a cold instance answers %s with %s, expected %s (%s)" % (ops[k], got[k] if k < len(got) else "?", e[k], "undo of an image" if ops[k][0] == "d" else "re-anonymization of an undone image"),
                     c[:-1] + [" ".join(ops[: k + 1])], raw[:300], e[k], label="impl")
    for c, cl, raw in zip(warm_i, wclosed_i, wraw_i):
        if cl == "ERR-PHASE1":
            continue
        if cl == "ERR" or not all(cl):
            ops, res = ipgen.ops_of(c), raw.split(" ")
            k = 2 * cl.index(False) if cl != "ERR" else 0
            ctx.fail("round trip broken in a warm history: %s -> %s, then %s -> %s" % (ops[k], res[k] if k < len(res) else "?", ops[k + 1] if k + 1 < len(ops) else "?", res[k + 1] if k + 1 < len(res) else "?"),
                     c[:-1] + [" ".join(ops[: k + 2])], raw[:300], label="impl")
    # file level: main -a, then main -u in a fresh process with the same salt and options, restores the canonicalised input
    import base64, ipaddress, json
    from . import linegen, ipref
    froms, metas = [], []
    for k in range(6 if q else 60):
        lines = [l.rstrip("\r\n") + "\n" for l in linegen.ip_lines(rng, 8, near=True, tails=False)]    # open() would translate \r\n (outside the model)
        lines += ["private 10.%d.%d.%d 172.16.9.%d 192.168.%d.1 and 11.22.33.%d\n" % tuple(rng.randrange(256) for _ in range(6))]
        opts = {"ip": True, "salt": rng.choice(["s", "T0p", "netconan"]), "hostbits": rng.choice([None, 0, 8, 12]), "private": rng.random() < 0.5,
                "prefixes": rng.choice([None, None, ["10.0.0.0/8"], ["0.0.0.0/0"]]), "networks": rng.choice([None, None, ["11.22.0.0/16"], ["203.0.113.0/24", "1.2.3.4"]])}
        froms.append(["files", "main", json.dumps(opts), json.dumps([["f.cfg", base64.b64encode("".join(lines).encode()).decode(), {}]])])
        metas.append((lines, opts))
    r1 = vlib.run_impl(froms)
    backs, idx = [], []
    for j, (o, (lines, opts)) in enumerate(zip(r1, metas)):
        try:
            d = json.loads(o)
            anon = d["out"]["f.cfg"]
        except Exception:
            ctx.fail("main -a failed on a generated file", {"options": opts}, o[:200], label="impl-file")
            continue
        o2 = dict(opts, ip=False, undo=True)
        backs.append(["files", "main", json.dumps(o2), json.dumps([["f.cfg", base64.b64encode(anon.encode()).decode(), {}]])])
        idx.append(j)
    r2 = vlib.run_impl(backs)
    for j, o in zip(idx, r2):
        lines, opts = metas[j]
        try:
            und = json.loads(o)["out"]["f.cfg"]
        except Exception:
            ctx.fail("main -u failed on anonymized output", {"options": opts}, o[:200], label="impl-file")
            continue
        nets = (opts["networks"] or []) + (["10.0.0.0/8", "172.16.0.0/12", "192.168.0.0/16"] if opts["private"] else [])
        nets_i = ["%d/%s" % (int(ipaddress.ip_network(n).network_address), ipaddress.ip_network(n).prefixlen) for n in nets]
        # canonical spelling of every token the forward pass replaces; everything else verbatim
        exp = []
        for l in lines:
            res, last = [], 0
            for a, b, v, kind in linegen.v6_tokens(l):
                res += [l[last:a], str(ipaddress.IPv6Address(v))]
                last = b
            res.append(l[last:])
            l2 = "".join(res)
            res, last = [], 0
            for a, b, v in linegen.v4_tokens(l2):
                if ipref.is_mask_ref(v) or any(ipref.in_net(v, n) for n in nets_i):
                    continue
                res += [l2[last:a], str(ipaddress.IPv4Address(v))]
                last = b
            res.append(l2[last:])
            exp.append("".join(res))
        got = und.split("\n")
        expl = "".join(exp).split("\n")
        if got != expl:
            k = next((i for i in range(min(len(got), len(expl))) if got[i] != expl[i]), 0)
            # an image that is itself mask-shaped is deliberately left alone in both directions
            ctx.fail("--undo of the anonymized file does not restore the (canonicalised) input", {"line": lines[k] if k < len(lines) else None, "options": opts},
                     got[k] if k < len(got) else None, expl[k] if k < len(expl) else None, label="impl-file")
    ctx.search_stats_file = {"file_roundtrips": len(froms)}
    n_files = file_round_trips(ctx, rng, q) + long_round_trip(ctx, rng, q)
    ctx.evaluations = n_files + 2 * (len(fwd) + len(warm0)) + 2 * len(froms)
    ctx.distinct_nontrivial = nt
    ctx.search_stats = {"cold_undo_cases": len(fwd), "warm_cases": len(warm0), "addresses_undone_cold_with_image_ne_original": nt, "file_level_main_roundtrips": len(froms)}
    ctx.samples = [{"case": next(c for c in cold_i if c), "impl": next(r for r in raw_i if r)}, {"case": next(c for c in warm_i if c), "impl": next(r for r in wraw_i if r)}]


def file_round_trips(ctx, rng, q):
    """anonymize a text through the real command line, undo the result in ANOTHER process with the same salt and options: every address token must
    come back with its original VALUE (notation may differ). Salts incl. the empty string, host-bit counts, preserved lists, IPv6 literals with an
    IPv4 tail in the listed forms, lines with over a hundred addresses."""
    import base64
    import ipaddress
    import json
    import vlib
    from . import linegen
    n = 0
    runs = []
    for salt in (["", "s", "T5"] if q else ["", "s", "T5", "0", " ", "é", "netconan", "_x"]):
        for hb, nets in ((8, None), (0, ["11.22.0.0/16"]), (16, None)):
            lines = [l if l.endswith("\n") else l + "\n" for l in linegen.ip_lines(rng, 6, near=False, masks=True)]
            lines.append("map ::ffff:198.51.100.7 64:ff9b::10.0.0.1 ::ffff:0:192.168.1.1 ::1.2.3.4 end\n")
            lines.append("prefix-list " + " ".join("%d.%d.%d.%d" % (rng.randrange(1, 224), rng.randrange(256), rng.randrange(256), rng.randrange(1, 255)) for _ in range(rng.choice([90, 110, 140]))) + "\n")
            lines.append("v6-list " + " ".join(str(ipaddress.IPv6Address(rng.getrandbits(128))) for _ in range(40)) + "\n")
            # lines of short addresses whose length sits just below common limits: the anonymized line is longer than the original
            for target in (rng.sample([1000, 1016, 1023, 1024, 2040, 2047, 4090, 4095, 8190], 3)):
                toks = ["pl"]
                while len(" ".join(toks)) + 9 < target:
                    toks.append("%d.%d.%d.%d" % (rng.randrange(1, 10), rng.randrange(10), rng.randrange(10), rng.randrange(1, 10)))
                body = " ".join(toks)
                lines.append(body + " " + "x" * max(0, target - len(body) - 2) + "\n")
            runs.append((salt, hb, nets, lines))

    def cli(opts, content):
        o = dict(opts, single="r.cfg")
        out = vlib.run_impl_fresh([["files", "main", json.dumps(o), json.dumps([["r.cfg", base64.b64encode(content.encode()).decode(), {}]])]])[0]
        try:
            r = json.loads(out)
            return None if r["raised"] else r["out"].get("r.cfg")
        except Exception:
            return None
    for salt, hb, nets, lines in runs:
        text = "".join(lines)
        common = {"salt": salt, "hostbits": hb, "networks": nets}
        anon = cli(dict(common, ip=True), text)
        back = cli(dict(common, undo=True), anon) if anon is not None else None
        if anon is None or back is None:
            ctx.fail("command-line anonymize / undo run produced no output", {"salt": salt, "host_bits": hb, "networks": nets}, [anon is None, back is None], label="impl-files")
            continue
        for l, b in zip(lines, back.splitlines(True)):
            def values(line):
                t6 = linegen.v6_tokens(line)
                rest = list(line)
                for i, j, _v, _k in t6:          # an IPv4 tail inside an IPv6 literal belongs to that literal
                    rest[i:j] = " " * (j - i)
                return [("6", v) for _, _, v, _ in t6] + [("4", v) for _, _, v in linegen.v4_tokens("".join(rest))]
            want, got = values(l), values(b)
            n += len(want)
            if sorted(want) != sorted(got):
                miss = [x for x in want if x not in got][:1]
                ctx.fail("anonymize then undo (same salt %r, host bits %d, separate processes, command line) does not restore %s" % (
                    salt, hb, ((ipaddress.IPv4Address(miss[0][1]) if miss[0][0] == "4" else ipaddress.IPv6Address(miss[0][1])) if miss else "the addresses of a line")), {"line": l[:300], "salt": salt, "host_bits": hb, "networks": nets}, b[:300], label="impl-files")
                break
    return n
