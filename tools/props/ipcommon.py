"""Shared declarations for the IP-family property modules."""
from . import ipgen

COQ_DEPS = ["lib/PPCore.v", "lib/PPHost.v", "lib/Memo.v", "lib/MemoProofs.v"]
MODEL_DEPS = COQ_DEPS + ["lib/Md5.v", "lib/Str.v", "lib/Mask.v", "gen/G_ip_consts.v", "model/IpModel.v", "model/DriverIp.v", "model/Driver.v", "model/Extract.v", "lib/PyLib.v", "lib/PyHash.v", "gen/G_fn_ip.v", "model/DriverFn.v"]
TRUSTED_BASE = [
    "Coq 8.16.1 kernel (coqc); vm_compute used only in the non-vacuity Example",
    "axioms: none (Print Assumptions: Closed under the global context for every theorem)",
    "hand-written model lib/Memo.v + model/IpModel.v of _BaseIpAnonymizer/IpAnonymizer/IpV6Anonymizer, tied to /repo by the correspondence run of this check (extracted with ExtrOcamlBasic, no Extract Constant)",
    "generated unit gen/G_ip_consts.v (class constants read from the imported module)",
    "lib/Md5.v (MD5 in Gallina, validated against hashlib through the same correspondence)",
    "ipaddress option-string parsing is outside the model (cases pass already-parsed networks)",
]
ASSUMPTIONS = ["option strings are parsed by Python's ipaddress module (not modelled)", "bidict 0.24 semantics as modelled in lib/Memo.v (bput)"]
RULE_C01 = ("small widths 1-6: every address of the space under random flip tables and every B; widths 32/128: addresses built to share exactly k leading bits "
        "for random k, boundary addresses of every preserved prefix; salts incl. empty/non-ASCII; non-trivial = a pair of distinct addresses whose images were compared")


