"""C12: non-sensitive text and line structure are conserved."""
import itertools
from . import ipgen, ipref, linegen, textgen
from .textcommon import TEXT_MODEL_DEPS as MODEL_DEPS, TEXT_TRUSTED as TRUSTED_BASE, TEXT_ASSUMPTIONS as ASSUMPTIONS  # noqa

COQ_DEPS = ["lib/Str.v", "lib/Rx.v", "lib/RxFacts.v", "lib/RxSub.v", "gen/G_rx.v", "gen/G_text_consts.v", "model/TextModel.v", "model/TextProofs.v", "model/TextProofs2.v", "lib/RxSubFacts.v"]
RULE = ("texts of ordinary vocabulary with sensitive items at known positions (secrets from the template corpus, addresses, listed words and AS numbers), blank / whitespace-only lines, lines made only of quote or bracket characters, tabs, form feeds, CRLF, "
        "no final newline; all 32 feature subsets; oracle: line count, leading/trailing whitespace + terminator per line, non-sensitive tokens verbatim and in order, inner whitespace identical unless secrets/words are on, "
        "each output line equal to the output of the same line processed alone with the same earlier secrets; non-trivial = a distinct (line, feature subset) pair with at least one sensitive item")

SCRUB = "! Sensitive line SCRUBBED by netconan"
WORDS = ["seattle", "kayak"]
ASNUMS = ["65001", "64512"]


def build_text(rng, n):
    """returns list of (line, set of token indexes that are sensitive under (p, a, w, n))"""
    out = []
    for _ in range(n):
        k = rng.randrange(10)
        if k == 0:
            out.append((rng.choice(["\n", "  \n", "\t\n", " \x0c \n", "\r\n", "   \r\n"]), {}))
            continue
        if k == 9 and rng.random() < 0.5:   # a line made only of quote / bracket characters (the closing quote of a multi-line banner): nothing to take apart
            out.append((rng.choice(["", " ", "\t"]) + rng.choice(["\"", "''", "\\\"", "\"\"\"", "'\"'", "\" \"", "[", "{ }", "\";", "';"]) + rng.choice(["", " "]) + rng.choice(["\n", "\r\n"]), {}))
            continue
        toks = [rng.choice(linegen.ORDINARY) for _ in range(rng.randrange(1, 6))]
        sens = {}
        if k == 3:               # free text with backslash sequences next to a secret
            body = rng.choice(["username CORP\\nadmin secret 5 $1$wtHI$0rN7R8PKwC30AsCGA77vy.", "tacacs-server host ACS\\tacacs01 key 7 122A00190102180D3C2E",
                               "radius-server host AD\\1 key RemoveMeKey", "snmp-server contact noc\\ops community RemoveMeComm", "ppp pap sent-username dom\\user password 0 RemoveMePw"])
            sec = body.split()[-1]
            out.append((rng.choice(["", " "]) + body + "\n", {"secret": sec}))
            continue
        if k in (1, 2):          # a secret-bearing line from the corpus
            tpl, sample = rng.choice(textgen.TEMPLATES)
            if tpl.count("{}") == 1 and "{0}" not in tpl:
                body = tpl.format(sample)
                line = rng.choice(["", " ", "   ", "\t"]) + body + rng.choice(["", " ", "  "]) + "\n"
                out.append((line, {"secret": sample}))
                continue
        for _ in range(rng.randrange(0, 3)):
            kind = rng.choice("awn")
            tok = {"a": rng.choice(linegen.V4_OK[:6] + linegen.V6_OK[:4] + linegen.V4_MASK), "w": rng.choice(["seattle-core", "KAYAK1", "xseattlex"]), "n": rng.choice(ASNUMS)}[kind]
            pos = rng.randrange(len(toks) + 1)
            toks.insert(pos, tok)
        line = linegen.mk_line(rng, toks, term=rng.choice(["\n"] * 6 + ["\r\n"]))
        out.append((line, sens))
    if rng.random() < 0.4 and out[-1][0].rstrip("\r\n"):
        l, s = out[-1]
        out[-1] = (l.rstrip("\r\n"), s)
    return out


def lead_trail(s):
    body = s.strip()
    if not body:
        return None
    i = s.index(body[0])
    return s[:i], s[len(s.rstrip()):]


def is_sensitive_token(tok, flags, words, asnums):
    low = tok.lower()
    if "a" in flags and (any(not ipref.is_mask_ref(v) for _, _, v in linegen.v4_tokens(tok)) or linegen.v6_tokens(tok)):
        return True
    if words and any(w in low for w in words):
        return True
    if asnums and any(tok[a:b] in asnums for a, b in linegen.digit_runs(tok)):
        return True
    return False


def run(ctx):
    rng, q = ctx.rng, ctx.quick()
    cases, metas = [], []
    subsets = ["".join(x for x, on in zip("pawn", bits) if on) for bits in itertools.product([0, 1], repeat=4)]
    for rep in range(2 if q else 30):
        for sub in subsets:
            text = build_text(rng, 10)
            lines = [l for l, _ in text]
            flags = ("p" if "p" in sub else "") + ("a" if "a" in sub else "")
            cases.append(textgen.pipe(lines, flags=flags, salt=rng.choice(ipgen.SALTS), words=WORDS if "w" in sub else None, asnums=ASNUMS if "n" in sub else None))
            metas.append((sub, text))
    m, i = ctx.correspond(cases, project=lambda c, o: textgen.norm(o), label="structure")
    nt = 0
    singles, where = [], []
    for ci, (c, out, (sub, text)) in enumerate(zip(cases, i, metas)):
        lines = c[11:]
        if out.startswith("RAISED"):
            ctx.fail("processing raised", c[:11] + ["<%d lines>" % len(lines)], out, label="raised")
            continue
        outs = textgen.outlines(out)
        if len(outs) != len(lines):
            ctx.fail("%d lines in, %d lines out" % (len(lines), len(outs)), c[:11], out[:300], label="impl")
            continue
        for li, (l, o, (_, sens)) in enumerate(zip(lines, outs, text)):
            collapse = "p" in sub or "w" in sub
            if lead_trail(l) is None:
                if o != l:
                    ctx.fail("a blank / whitespace-only line was changed", {"line": l, "features": sub}, o, l, label="impl")
                continue
            if o.count("\n") != l.count("\n") or o.count("\r") != l.count("\r"):
                ctx.fail("a line terminator appeared or disappeared inside a line", {"line": l, "features": sub}, o, label="impl")
                continue
            lead, trail = lead_trail(l)
            if not o.startswith(lead) or not o.endswith(trail) or lead_trail(o) != (lead, trail):
                ctx.fail("leading/trailing whitespace or the line terminator changed", {"line": l, "features": sub}, o, label="impl")
                continue
            ti, to = l.split(), o.split()
            if "secret" in sens and "p" in sub:
                nt += 1
                if SCRUB not in o and len(ti) == len(to):
                    for a, b in zip(ti, to):
                        if a != b and sens["secret"] not in a and not is_sensitive_token(a, sub.replace("p", ""), WORDS if "w" in sub else None, ASNUMS if "n" in sub else None):
                            ctx.fail("non-sensitive token %r on a secret-bearing line became %r" % (a, b), {"line": l, "features": sub}, o, label="impl")
                continue          # the secret's own position is C09's subject
            if len(ti) != len(to):
                ctx.fail("number of whitespace-separated tokens changed", {"line": l, "features": sub}, o, label="impl")
                continue
            anysens = False
            for a, b in zip(ti, to):
                if is_sensitive_token(a, sub.replace("p", ""), WORDS if "w" in sub else None, ASNUMS if "n" in sub else None):
                    anysens = True
                elif a != b:
                    ctx.fail("non-sensitive token %r became %r" % (a, b), {"line": l, "features": sub}, o, label="impl")
            nt += anysens
            if not collapse:
                # whitespace runs must be identical: compare the lines with every token removed
                import re
                if re.sub(r"\S+", "X", l) != re.sub(r"\S+", "X", o):
                    ctx.fail("inner whitespace changed although neither secrets nor words are enabled", {"line": l, "features": sub}, o, label="impl")
            elif "p" not in sub and not any(w in l.lower() for w in WORDS):
                if l != o and re_ws(l) != re_ws(o):
                    ctx.fail("whitespace changed on a line without a listed word", {"line": l, "features": sub}, o, label="impl")
        # locality: line k alone (without secrets: no cross-line state matters) gives the same output
        if "p" not in sub:
            for li in rng.sample(range(len(lines)), min(3, len(lines))):
                singles.append(c[:11] + [lines[li]])
                where.append((ci, li))
    import vlib
    so = vlib.run_impl(singles)
    for (ci, li), o1 in zip(where, so):
        if textgen.outlines(i[ci])[li] != textgen.outlines(o1)[0]:
            ctx.fail("a line gives a different output when processed alone than inside the text (no secret feature on)", {"line": cases[ci][11 + li], "features": metas[ci][0]},
                     textgen.outlines(i[ci])[li], textgen.outlines(o1)[0], label="impl")
    n_extra = repeated_lines(ctx, rng, q) + big_text(ctx, rng)
    ctx.evaluations = sum(len(c) - 11 for c in cases) + len(singles) + n_extra
    ctx.distinct_nontrivial = nt
    ctx.search_stats = {"cases": len(cases), "feature_subsets": len(subsets), "lines": sum(len(c) - 11 for c in cases), "locality_probes": len(singles)}
    ctx.samples = [dict(textgen.sample(cases[5], i[5], 0), features=metas[5][0]), dict(textgen.sample(cases[15], i[15], 1), features=metas[15][0])]


def re_ws(s):
    import re
    return re.sub(r"\S+", "X", s)


def repeated_lines(ctx, rng, q):
    """the same line text several times within the life of one FileAnonymizer with DIFFERENT terminators (LF, CRLF, none at the end of a text),
    within one text and across several anonymize_io calls: every output text must have exactly the line structure of its input text"""
    import vlib
    n = 0
    bodies = [" no shutdown", "!", "end", "interface Gi0/1", " ip address 11.22.33.44 255.255.255.0", "hostname r2"]
    for flags, words in (("2", None), ("2a", None), ("2p", None), ("2", WORDS), ("2pa", WORDS)):
        for _ in range(2 if q else 12):
            texts = []
            for t in range(rng.randrange(2, 4)):
                ls = [rng.choice(bodies) + rng.choice(["\n", "\n", "\r\n"]) for _ in range(rng.randrange(2, 7))]
                if rng.random() < 0.6:
                    ls.append(rng.choice(bodies))          # last line of this text without a terminator
                texts.append(ls)
            flat = []
            for k, t in enumerate(texts):
                flat += ([] if k == 0 else ["\x08"]) + t
            c = textgen.pipe(flat, flags=flags, salt="s", words=words)
            out = vlib.run_impl([c])[0]
            n += sum(len(t) for t in texts)
            if out.startswith("RAISED"):
                ctx.fail("processing raised", c[:11], out, label="raised")
                continue
            outs = out.split("\x07")
            for t, o in zip(texts, outs):
                ol = o.splitlines(keepends=True)
                want = [l[len(l.rstrip("\r\n")):] for l in t]
                got = [l[len(l.rstrip("\r\n")):] for l in ol]
                if want != got:
                    ctx.fail("line terminators / line count changed when a line text recurs with another terminator (several anonymize_io calls on one anonymizer)",
                             {"texts": texts, "features": flags}, o, label="impl-repeat")
                    break
    return n


def big_text(ctx, rng):
    """one text larger than 1 MiB (and than common buffer sizes): every line must come out"""
    import vlib
    lines = ["interface Vlan%d description uplink to core-rtr %d\n" % (k, k) for k in range(26000)]
    lines[777] = " ip address 11.22.33.44 255.255.255.0\n"
    lines[-1] = "end of file marker 11.22.33.45\n"
    assert sum(len(l) for l in lines) > (1 << 20) + 4096
    out = vlib.run_impl([textgen.pipe(lines, flags="a", salt="s")])[0]
    if out.startswith("RAISED"):
        ctx.fail("processing a text of %d characters raised" % sum(len(l) for l in lines), {"lines": len(lines)}, out, label="raised")
        return len(lines)
    ol = textgen.outlines(out)
    if len(ol) != len(lines) or not ol[-1].startswith("end of file marker ") or ol[5] != lines[5]:
        ctx.fail("%d lines (%d characters) in, %d lines out" % (len(lines), sum(len(l) for l in lines), len(ol)), {"lines": len(lines), "first": lines[0]}, ol[-1][:200] if ol else "", label="impl-big")
    return len(lines)
