"""Structured line generators and independent scanners for the text-level properties."""
import ipaddress
import itertools
import re

from . import ipref

ORDINARY = ["interface", "GigabitEthernet0/1", "description", "uplink", "to", "core-rtr", "router", "ospf", "mtu", "1500", "!", "no", "shutdown",
            "vlan", "ip", "address", "route", "neighbor", "remote-as", "permit", "any", "eq", "www", "access-list", "version", "15.2", "hostname",
            "lab_sw-01", "set", "system", "ntp", "server", "logging", "host", "snmp", "location", "Building(7)", "rack#4", "speed", "auto"]
V4_OK = ["1.2.3.4", "10.0.0.1", "192.168.1.77", "172.16.5.200", "8.8.8.8", "001.021.201.012", "1.2.3.040", "0.0.0.1", "223.255.255.254", "100.64.0.9",
         "203.0.113.77", "0255.000255.1.0001", "11.22.33.44/24", "10.1.1.0/030", "11.12.13.14/8",
         "10.1.1.17/configs", "tftp://10.1.1.18/r1.cfg", "172.20.5.9/", "11.22.33.45/x", "user@192.0.2.33/var", "11.22.33.46/-", "11.22.33.47//"]
V4_MASK = ["255.255.255.0", "0.0.0.255", "255.255.255.255", "0.0.0.0", "255.254.0.0", "0.0.63.255", "128.0.0.0", "255.255.255.000", "000.000.000.255", "255.255.0254.0", "000.0.0.0",
           "255.255.255.0/24", "224.0.0.0/4", "240.0.0.0/4", "128.0.0.0/1", "192.0.0.0/2", "255.255.255.255/32", "0.0.0.3/32", "0.0.0.0/0", "255.0.0.0/8"]
V4_NEAR = ["1.2.3", "1.2.3.4.5", "1.256.3.4", "x1.2.3.4", "1.2.3.4x", "1.2.3.256", "1..2.3", "1.2.3.4.", ".1.2.3.4", "1.2.3.2555", "v1.2.3.4-b", "a.b.c.d", "1.2.3.4_5", "1.2.3.٣"]
V6_OK = ["2001:db8::1", "fe80::1", "::1", "::", "2001:0db8:0000:0000:0000:ff00:0042:8329", "2001:DB8::FFFF", "1:2:3:4:5:6:7:8", "1::", "1:2::8", "ff02::1:ff00:1234",
         "2001:db8::1/64", "::/0", "fc00::abcd/7", "2607:f8b0:4005:805::200e", "0:0:0:0:0:0:0:1", "1::1"]
V6_TAIL = ["::ffff:1.2.3.4", "64:ff9b::10.0.0.1", "1:2:3:4::1.2.3.4", "::1.2.3.4", "::ffff:0:192.168.1.1",
           "::FFFF:1.2.3.5", "::FfFf:0:192.168.1.2", "64:FF9B::10.0.0.2", "::Ffff:9.8.7.6"]
V6_TAIL_UNLISTED = ["1::2:1.2.3.4", "1:2:3:4:5:6:1.2.3.4", "2001:db8::a:10.1.2.3"]
V6_NEAR = ["1:2:3:4:5:6:7", "1:2:3:4:5:6:7:8:9", "12345::1", "g::1", "1::2::3", "00:11:22:33:44:55", "0011.2233.4455", "x2001:db8::1", "2001:db8::1x", "fe80:%x", ":::", "1:::2", "ab:cd", ":1"]
DELIMS = [" ", "  ", "\t", ",", ";", "(", ")", "[", "]", "{", "}", "\"", "'", "=", "<", ">", "|", "#", "!", "@", "-", "_", "/", "\\", "*", "+", "~", "?"]
# characters that are letters or digits for Unicode-aware classes (\w, str.isalnum) but not ASCII: still delimiters of an address token
DELIMS += ["é", "管", "٣", "ª", "№", "ß", "Ω", "²", "١٢"]


def mk_line(rng, items, indent=None, term="\n"):
    """items: list of tokens; joined with random delimiters (mostly single spaces)"""
    out = [rng.choice(["", " ", "  ", "\t", "    "]) if indent is None else indent]
    for k, it in enumerate(items):
        if k:
            out.append(rng.choice([" "] * 6 + ["  ", "\t", ", ", " (", "="]))
        out.append(it)
    out.append(rng.choice(["", "", " ", "  ", "\t"]))
    return "".join(out) + term


def ip_lines(rng, n, families="46", near=True, masks=True, tails=False):
    lines = []
    for _ in range(n):
        items = [rng.choice(ORDINARY) for _ in range(rng.randrange(0, 4))]
        for _ in range(rng.randrange(1, 4)):
            pool = []
            if "4" in families:
                pool += V4_OK * 3 + (V4_NEAR if near else []) + (V4_MASK if masks else [])
                pool += [".".join(str(rng.randrange(256)) for _ in range(4)) for _ in range(4)]
            if "6" in families:
                pool += V6_OK * 2 + (V6_NEAR if near else []) + (V6_TAIL * 2 + V6_TAIL_UNLISTED if tails else [])
                pool += [str(ipaddress.IPv6Address(rng.getrandbits(128)))]
            tok = rng.choice(pool)
            if rng.random() < 0.25:
                d1, d2 = rng.choice(DELIMS), rng.choice(DELIMS)
                tok = d1 + tok + d2
            items.insert(rng.randrange(len(items) + 1), tok)
        lines.append(mk_line(rng, items, term=rng.choice(["\n"] * 8 + ["\r\n"])))
    if lines and rng.random() < 0.3:
        lines[-1] = lines[-1].rstrip("\r\n")          # only the last line of a text may lack its terminator
    return lines


# ----------------------------------------------------------------------------- independent token scanners
TOK4 = set("abcdefghijklmnopqrstuvwxyzABCDEFGHIJKLMNOPQRSTUVWXYZ0123456789.")
TOK6 = set("abcdefghijklmnopqrstuvwxyzABCDEFGHIJKLMNOPQRSTUVWXYZ0123456789:")


def runs(line, alpha):
    out, i = [], 0
    while i < len(line):
        if line[i] in alpha:
            j = i
            while j < len(line) and line[j] in alpha:
                j += 1
            out.append((i, j))
            i = j
        else:
            i += 1
    return out


def valid4(t):
    p = t.split(".")
    return len(p) == 4 and all(x.isascii() and x.isdigit() and int(x) <= 255 for x in p)


def v4_tokens(line):
    """(start, end, int) of every standalone valid IPv4 token (a following /len is not part of the token)"""
    return [(i, j, int(ipaddress.IPv4Address(".".join(str(int(x)) for x in line[i:j].split("."))))) for i, j in runs(line, TOK4) if valid4(line[i:j])]


def valid6(t):
    try:
        ipaddress.IPv6Address(t)
        return ":" in t
    except Exception:
        return False


def v6_tokens(line):
    """(start, end, int, kind): a maximal run of [A-Za-z0-9:] that is a valid IPv6 literal; kind 'tail' when the run continues
    as a dotted quad and the whole is a valid IPv6 literal (then the whole is the token)"""
    out = []
    for i, j in runs(line, TOK6):
        t = line[i:j]
        m = re.match(r"(\.[0-9]{1,3}){3}(?![A-Za-z0-9.])", line[j:])        # ASCII digits only: a Unicode digit after the quad is a delimiter
        if m and ":" in t and valid6(t + m.group(0)):
            out.append((i, j + m.end(), int(ipaddress.IPv6Address(t + m.group(0))), "tail"))
        elif valid6(t):
            out.append((i, j, int(ipaddress.IPv6Address(t)), "plain"))
    return out


def expected_ip_line(line, salt, B4, B6, pfx, nets, undo=False, fams="64"):
    """what the property says the output must be; returns (expected, has_tail_token)"""
    tail = False
    if "6" in fams:
        H = ipref.salter_of("md5:" + salt)
        res, last = [], 0
        for i, j, v, kind in v6_tokens(line):
            if kind == "tail":
                tail = True
            res.append(line[last:i])
            res.append(str(ipaddress.IPv6Address(ipref.image(H, 128, B6, [], v, undo=undo))))
            last = j
        res.append(line[last:])
        line = "".join(res)
    if "4" in fams:
        H = ipref.salter_of("md5:" + salt)
        seeds = ipref.seeds_of("D" if pfx == "-" else pfx, nets, ipref.DEFAULTS)
        netl = ipref.nets_of(nets)
        res, last = [], 0
        for i, j, v in v4_tokens(line):
            if ipref.is_mask_ref(v) or any(ipref.in_net(v, n) for n in netl):
                continue
            res.append(line[last:i])
            res.append(str(ipaddress.IPv4Address(ipref.image(H, 32, B4, seeds, v, undo=undo))))
            last = j
        res.append(line[last:])
        line = "".join(res)
    return line, tail


def short_strings(alphabet, maxlen):
    for n in range(0, maxlen + 1):
        for t in itertools.product(alphabet, repeat=n):
            yield "".join(t)


# ----------------------------------------------------------------------------- AS numbers
def digit_runs(line):
    out, i = [], 0
    while i < len(line):
        if line[i].isdecimal():
            j = i
            while j < len(line) and line[j].isdecimal():
                j += 1
            out.append((i, j))
            i = j
        else:
            i += 1
    return out


def as_block(n):
    return 0 if n <= 64511 else 1 if n <= 65535 else 2 if n <= 4199999999 else 3
