"""C04: preserved prefixes and host bits survive anonymization.
The search drives anonymize only (what the property states); the undo direction is covered by theorems in props/C04.v and by C02/C03."""
from . import ipgen, ipref
from .ipcommon import MODEL_DEPS, TRUSTED_BASE, ASSUMPTIONS  # noqa

COQ_DEPS = ["lib/PPCore.v", "lib/PPHost.v", "lib/Memo.v", "lib/MemoProofs.v", "lib/Pinned.v", "lib/Str.v", "lib/Mask.v", "lib/Md5.v", "model/IpModel.v", "gen/G_ip_consts.v", "lib/PyLib.v", "gen/G_fn_ip.v", "refine/RefIpCommon.v", "refine/RefInit.v"]
RULE = ("IPv4: every B in 0..32 with default, empty, nested, overlapping and long (> 32-B) preserved lists, first/last address of every prefix and outside neighbours, "
        "random addresses; IPv6: B in 0..128; oracle = network membership and suffix equality computed independently; pairs differing only in host bits; "
        "non-trivial = an address inside some preserved prefix whose image differs from it")


def check_case(ctx, c, out):
    w = ipgen.case_width(c)
    B = int(c[1]) if c[0] != "base" else int(c[2])
    nets = ipref.nets_of(c[3]) if c[0] == "ip4" else []   # the preserved PREFIX list only (preserved networks are C05)
    ops, res = ipgen.ops_of(c), out.split(" ")
    nt = 0
    if len(ops) != len(res):
        ctx.fail("request raised", c, out[:300], label="impl")
        return 0
    lead = {}
    for op, r in zip(ops, res):
        if not r.isdigit():
            ctx.fail("request %s raised" % op, c, r, label="impl")
            return nt
        x, y = int(op[1:]), int(r)
        for n in nets:
            if ipref.in_net(x, n) != ipref.in_net(y, n):
                ctx.fail("%s %d: %s preserved prefix %s -> image %d is %s it" % (
                    "anonymize" if op[0] == "a" else "undo", x, "inside" if ipref.in_net(x, n) else "outside", n, y, "inside" if ipref.in_net(y, n) else "outside"), c[:-1] + [op], r, label="impl")
                return nt
            if ipref.in_net(x, n) and x != y:
                nt += 1
        if B and (x & ((1 << B) - 1)) != (y & ((1 << B) - 1)):
            ctx.fail("trailing %d host bits changed: %d -> %d" % (B, x, y), c[:-1] + [op], r, label="impl")
            return nt
        key = (op[0], x >> B)
        if key in lead and lead[key] != y >> B:
            ctx.fail("leading bits of the image depend on the host bits", c, [op, r], label="impl")
            return nt
        lead[key] = y >> B
    return nt


def project(c, out):
    """per request: membership of the image in every configured network, its trailing B bits, its leading bits (for host-bit twins)"""
    w = ipgen.case_width(c)
    B = int(c[1]) if c[0] != "base" else int(c[2])
    nets = ipref.nets_of(c[3]) if c[0] == "ip4" else []   # the preserved PREFIX list only (preserved networks are C05)
    ops, res = ipgen.ops_of(c), out.split(" ")
    if len(ops) != len(res) or not all(r.isdigit() for r in res):
        return "ERR"
    obs, lead = [], {}
    for op, r in zip(ops, res):
        y = int(r)
        key = int(op[1:]) >> B
        lead.setdefault(key, y >> B)
        obs.append(([ipref.in_net(y, n) for n in nets], y & ((1 << B) - 1), lead[key] == y >> B))
    return obs


def run(ctx):
    rng, q = ctx.rng, ctx.quick()
    cases = []
    Bs = list(range(0, 33)) if not q else [0, 1, 7, 8, 9, 16, 24, 31, 32]
    for B in Bs:
        for pfx in (ipgen.PREFIX_LISTS if not q or B in (0, 8) else rng.sample(ipgen.PREFIX_LISTS, 3)):
            c = ipgen.ip4_case(rng, B=B, pfx=pfx, dirs="a", n_addr=6)
            ops = ipgen.ops_of(c)
            # host-bit twins: same leading bits, different host bits
            for o in ops[:3]:
                x = int(o[1:])
                if B:
                    ops.append(o[0] + str((x >> B << B) | rng.getrandbits(B)))
            cases.append(c[:-1] + [" ".join(ops)])
    cases += [ipgen.ip4_case(rng, dirs="a") for _ in range(30 if q else 800)]
    for B in ([0, 8, 64, 128] if q else [0, 1, 8, 16, 63, 64, 65, 100, 127, 128]):
        c = ipgen.ip6_case(rng, B=B, dirs="a")
        ops = ipgen.ops_of(c)
        if B:
            x = int(ops[0][1:])
            ops.append(ops[0][0] + str((x >> B << B) | rng.getrandbits(B)))
        cases.append(c[:-1] + [" ".join(ops)])
    m, i = ctx.correspond(cases, project=project, label="preserve")
    # the same requests executed ENTIRELY by the code generated from the source on this run (constructor with its seeding loops and
    # ipaddress parsing, MD5 flip bit, anonymize/deanonymize) -- validates translator + PyLib on what the refinement theorems speak about
    gcases = [["gip4"] + c[1:] for c in cases if c[0] == "ip4" and c[2].startswith("md5:")][: 12 if q else 200]
    ctx.correspond(gcases, project=lambda c, o: project(["ip4"] + c[1:], o), label="generated-code")
    nt = sum(check_case(ctx, c, o) for c, o in zip(cases, i))
    # wiring: the host-bit values given to FileAnonymizer / main reach the right family (text level)
    import ipaddress
    from . import textgen, linegen
    wl = ["a 203.0.113.77 2001:db8:85a3:7:8:8a2e:370:7334 b\n", "c 10.20.30.40 fe80::1234:5678 198.51.100.200 ::ffff\n",
          "slaac 2001:db8:0:1:211:22ff:fe33:4455 fe80::a8bb:ccff:fedd:eeff 2001:db8::ff:fe00:1 64:ff9b::10.0.0.1\n"]       # incl. EUI-64 interface identifiers
    wcases = []
    for b4, b6 in [(8, 16), (16, 8), (0, 64), (24, 0), (8, 8), (1, 127), (8, 1), (8, 4), (8, 12), (8, 24), (8, 32)]:
        wcases.append(textgen.pipe(wl, flags="a", salt=rng.choice(ipgen.SALTS), b4=b4, b6=b6))
    def wproject(c, o):
        """per address token of each line: are the trailing host bits (b4 for IPv4, b6 for IPv6) of input and output equal"""
        if o.startswith("RAISED"):
            return "RAISED"
        b4, b6 = int(c[8]), int(c[9])
        res = []
        for l, ol in zip(wl, textgen.outlines(o)):
            res.append([(v1 & ((1 << b4) - 1)) == (v2 & ((1 << b4) - 1)) for (_, _, v1), (_, _, v2) in zip(linegen.v4_tokens(l), linegen.v4_tokens(ol))])
            res.append([(v1 & ((1 << b6) - 1)) == (v2 & ((1 << b6) - 1)) for (_, _, v1, _), (_, _, v2, _) in zip(linegen.v6_tokens(l), linegen.v6_tokens(ol))])
        return res
    wm, wi = ctx.correspond(wcases, project=wproject, label="wiring-host-bits")
    for c, out in zip(wcases, wi):
        b4, b6 = int(c[8]), int(c[9])
        if out.startswith("RAISED"):
            ctx.fail("processing raised", c[:11], out, label="impl")
            continue
        for l, o in zip(wl, textgen.outlines(out)):
            for (a1, e1, v1), (a2, e2, v2) in zip(linegen.v4_tokens(l), linegen.v4_tokens(o)):
                if b4 and (v1 & ((1 << b4) - 1)) != (v2 & ((1 << b4) - 1)):
                    ctx.fail("IPv4 address %s -> %s: the trailing %d host bits given for IPv4 are not kept" % (l[a1:e1], o[a2:e2], b4), {"line": l, "b4": b4, "b6": b6}, o, label="impl-wiring")
            for (a1, e1, v1, _k1), (a2, e2, v2, _k2) in zip(linegen.v6_tokens(l), linegen.v6_tokens(o)):
                if b6 and (v1 & ((1 << b6) - 1)) != (v2 & ((1 << b6) - 1)):
                    ctx.fail("IPv6 address %s -> %s: the trailing %d host bits given for IPv6 are not kept" % (l[a1:e1], o[a2:e2], b6), {"line": l, "b4": b4, "b6": b6}, o, label="impl-wiring")
    n_cli = prefix_lists_as_users_write_them(ctx, rng, q)
    ctx.evaluations = len(cases) + len(wcases) + n_cli
    ctx.distinct_nontrivial = nt
    ctx.search_stats = {"cases": len(cases), "inside_addresses_moved": nt}
    ctx.samples = [{"case": cases[0], "impl": i[0]}, {"case": cases[-1], "impl": i[-1]}]


def prefix_lists_as_users_write_them(ctx, rng, q):
    """preserved-prefix lists in every notation ipaddress accepts (prefix length, netmask, hostmask, bare host) and with nested / adjacent entries,
    through FileAnonymizer (api) and the real command line: an address inside a listed prefix stays inside it, one outside stays outside, host bits kept"""
    import base64
    import ipaddress
    import json
    import vlib
    lists = [["10.0.0.0/255.0.0.0"], ["172.16.0.0/0.15.255.255"], ["198.51.100.7"], ["10.0.0.0/8", "10.20.0.0/16"], ["172.16.0.0/13", "172.24.0.0/13"],
             ["192.168.0.0/17", "192.168.128.0/17", "11.0.0.0/8"], ["10.0.0.0/8", "10.0.0.0/9", "10.128.0.0/9"]]
    n = 0
    runs, metas = [], []
    for pl in lists:
        nets = [ipaddress.ip_network(x) for x in pl]
        for salt in (["s", "T5"] if q else ["s", "T5", "", "x1", "x2", "zz"]):
            addrs = []
            for net in nets:
                for _ in range(4):
                    addrs.append(str(net[rng.randrange(net.num_addresses)]))
                base = int(net.network_address)
                for k in range(1, min(net.prefixlen, 12) + 1):      # siblings at every level above the prefix: outside it
                    addrs.append(str(ipaddress.IPv4Address((base ^ (1 << (32 - k))) | rng.getrandbits(32 - net.prefixlen if net.prefixlen < 32 else 1) & ((1 << (32 - net.prefixlen)) - 1))))
            addrs = [a for a in addrs if int(ipaddress.IPv4Address(a)) >> 28 < 14]
            text = "".join("host %s\n" % a for a in addrs)
            for mode in ("api", "main"):
                opts = {"ip": True, "salt": salt, "prefixes": pl, "b4": 8, "b6": 8, "hostbits": 8, "single": "r.cfg"}
                runs.append(["files", mode, json.dumps(opts), json.dumps([["r.cfg", base64.b64encode(text.encode()).decode(), {}]])])
                metas.append((pl, nets, salt, mode, addrs))
    from . import ipref
    for c, out, (pl, nets, salt, mode, addrs) in zip(runs, vlib.run_impl(runs), metas):
        try:
            r = json.loads(out)
            got = [l.split()[1] for l in r["out"]["r.cfg"].splitlines()]
            assert len(got) == len(addrs) and not r["raised"]
        except Exception:
            ctx.fail("run with the preserved-prefix list %s produced no output (%s)" % (pl, mode), {"prefixes": pl, "salt": salt}, out[:300], label="impl-prefix-lists")
            continue
        for a, b in zip(addrs, got):
            n += 1
            ia, ib = ipaddress.IPv4Address(a), ipaddress.IPv4Address(b)
            if ipref.is_mask_ref(int(ia)):
                continue
            if (int(ia) & 255) != (int(ib) & 255):
                ctx.fail("host bits of %s not kept: %s" % (a, b), {"prefixes": pl, "salt": salt, "entry_point": mode}, b, label="impl-prefix-lists")
            for net in nets:
                if (ia in net) != (ib in net):
                    ctx.fail("%s (%s %s) is mapped to %s (%s it); preserved prefixes as given: %s" % (a, "inside" if ia in net else "outside", net, b, "inside" if ib in net else "outside", pl),
                             {"prefixes": pl, "salt": salt, "entry_point": mode}, b, label="impl-prefix-lists")
                    break
    return n
