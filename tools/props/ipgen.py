"""Case generators shared by the IP-family properties (C01-C05, C17): structured, mostly valid inputs."""
import itertools

SALTS = ["s", "", "netconan", "salt with space", "é中\U0001f600", "0", "TheSalt!"]
B4 = [0, 8, 1, 7, 9, 17, 24, 31, 32]
B6 = [0, 8, 1, 64, 127, 128, 17]


def net(a, l):
    """(dotted quad or int, len) -> 'int/len' with host bits cleared"""
    if isinstance(a, str):
        p = [int(x) for x in a.split(".")]
        a = (p[0] << 24) | (p[1] << 16) | (p[2] << 8) | p[3]
    mask = ((1 << l) - 1) << (32 - l) if l else 0
    return "%d/%d" % (a & mask, l)


PREFIX_LISTS = [
    "D", "-",
    net("10.0.0.0", 8) + ";" + net("10.0.0.0", 16) + ";" + net("10.0.0.0", 24),      # nested, same base, shorter first
    net("192.168.0.0", 24) + ";" + net("192.168.0.0", 16),                            # nested, same base, longer first
    net("10.0.0.0", 8) + ";" + net("10.1.0.0", 16) + ";" + net("10.1.2.0", 24),      # nested
    net("192.168.2.0", 24),
    net("1.2.3.4", 32) + ";" + net("1.2.3.4", 32),                                    # /32, duplicate
    net("0.0.0.0", 0),                                                                # /0: seeds nothing
    net("128.0.0.0", 1) + ";" + net("0.0.0.0", 1),
    net("203.0.113.128", 25) + ";" + net("203.0.113.0", 24),
    net("172.16.0.0", 12) + ";" + net("172.20.5.0", 30),
]
ADDR_LISTS = ["-", "-", net("192.168.0.0", 24), "P;" + net("10.1.0.0", 16), net("10.0.0.0", 8) + ";" + net("10.1.0.0", 16) + ";" + net("10.200.3.4", 32), net("222.173.0.0", 16) + ";" + net("1.2.3.4", 32), "P", net("11.11.0.0", 17), net("8.8.8.8", 32) + ";" + net("8.8.0.0", 16)]


def rand_prefix_list(rng):
    """structured lists: independent prefixes, nested chains with the SAME base address or a different one,
    shorter-first / longer-first / shuffled order, duplicates, siblings"""
    L = [1, 2, 5, 8, 12, 16, 17, 20, 23, 24, 25, 28, 30, 31, 32]
    kind = rng.randrange(6)
    items = []
    if kind == 0:
        for _ in range(rng.choice([1, 1, 2, 3])):
            items.append(net(rng.getrandbits(32), rng.choice(L + [rng.randrange(0, 33)])))
    elif kind in (1, 2):                      # nested chain, same base address
        base = rng.getrandbits(32) & ~0xFFFFFF if kind == 1 else rng.getrandbits(32) & ~0xFFFF
        ls = sorted(rng.sample([l for l in L if l <= (8 if kind == 1 else 16)] + [l for l in L if l > 16], rng.choice([2, 3])))
        items = [net(base, l) for l in ls]
    elif kind == 3:                           # nested chain, different base
        a = rng.getrandbits(32)
        ls = sorted(rng.sample(L, rng.choice([2, 3])))
        items = [net(a, l) for l in ls]
    elif kind == 4:                           # siblings and a duplicate
        a = rng.getrandbits(32)
        l = rng.choice([8, 16, 24, 25, 31, 32])
        items = [net(a, l), net(a ^ (1 << (32 - l)), l), net(a, l)]
    else:                                     # a default block refined
        items = [rng.choice(["167772160/8", "2886729728/12", "3232235520/16"])]
        a, l = items[0].split("/")
        items.append(net(int(a), rng.choice([x for x in L if x > int(l)])))
    order = rng.randrange(3)
    if order == 1:
        items.reverse()
    elif order == 2:
        rng.shuffle(items)
    return ";".join(items)


SPECIAL4 = ["0.0.0.0", "255.255.255.255", "127.0.0.1", "169.254.1.1", "224.0.0.5", "239.255.255.250", "240.0.0.1", "100.64.0.1", "192.0.2.1",
            "198.51.100.7", "203.0.113.77", "10.0.0.0", "10.255.255.255", "172.16.0.1", "172.31.255.254", "192.168.0.0", "192.168.255.255", "8.8.8.8", "1.2.3.4", "128.0.0.0", "191.255.255.255"]
SPECIAL6 = [0, 1, 0xFE80 << 112 | 1, 0xFE80 << 112 | 0x0202B3FFFE1E8329, 0xFEC0 << 112 | 1, 0xFF02 << 112 | 1, 0xFF02 << 112 | 2, 0xFC00 << 112 | 0xABCD, 0xFD00 << 112 | 1,
            0x20010DB8 << 96 | 1, 0x20010DB8 << 96 | 0xFFFF, 0x2002 << 112 | 0xC0000201 << 80, 0x0064FF9B << 96 | 0xC0000201, 0xFFFF << 32 | 0x01020304, 0x01020304, 0xFEBF << 112 | 0xFFFF, 0xFE7F << 112 | 0xFFFF, (1 << 128) - 1, 0x2607F8B0 << 96 | 0x200E]


def ip4int(s):
    p = [int(x) for x in s.split(".")]
    return (p[0] << 24) | (p[1] << 16) | (p[2] << 8) | p[3]


def special_addrs(rng, width, count):
    """well-known addresses of the family and addresses sharing exactly k bits with them"""
    pool = [ip4int(s) for s in SPECIAL4] if width == 32 else SPECIAL6
    res = []
    for _ in range(count):
        b = rng.choice(pool)
        if rng.random() < 0.5:
            res.append(b)
        else:
            k = rng.randrange(0, width)
            bit = 1 - ((b >> (width - k - 1)) & 1)
            low = rng.getrandbits(width - k - 1) if width - k - 1 > 0 else 0
            res.append(((b >> (width - k)) << (width - k) if k else 0) | (bit << (width - k - 1)) | low)
    return res


def addrs_sharing(rng, width, count):
    """count addresses built so that every common-prefix length shows up often: branch off a base address"""
    base = rng.getrandbits(width)
    res = [base]
    while len(res) < count:
        ref = rng.choice(res)
        k = rng.randrange(0, width + 1)        # share exactly k bits with ref (k = width: equal)
        if k == width:
            res.append(ref)
            continue
        low = rng.getrandbits(width - k - 1) if width - k - 1 > 0 else 0
        x = (ref >> (width - k)) << (width - k) if k else 0
        bit = 1 - ((ref >> (width - k - 1)) & 1)
        res.append(x | (bit << (width - k - 1)) | low)
    return res


def boundary_nets(key):
    return {"D": ["0/1", "2147483648/2", "3221225472/3", "3758096384/4", "167772160/8", "2886729728/12", "3232235520/16"],
            "P": ["167772160/8", "2886729728/12", "3232235520/16"]}[key]


def boundary_addrs(pfx_field):
    """first/last address of each listed prefix and their outside neighbours"""
    res = []
    if pfx_field in ("D", "P", "-"):
        nets = {"D": ["0/1", "2147483648/2", "3221225472/3", "3758096384/4", "167772160/8", "2886729728/12", "3232235520/16"],
                "P": ["167772160/8", "2886729728/12", "3232235520/16"], "-": []}[pfx_field]
    else:
        nets = []
        for it in pfx_field.split(";"):
            nets += boundary_nets(it) if it in ("D", "P") else [it]
    for n in nets:
        a, l = n.split("/")
        a, l = int(a), int(l)
        size = 1 << (32 - l)
        for x in (a, a + size - 1, a - 1, a + size, a + size // 2):
            if 0 <= x < 2**32:
                res.append(x)
    return res


def lcp(a, b, width):
    x = a ^ b
    return width if x == 0 else width - x.bit_length()


def tab_salter(rng, width, density=None):
    prefixes = ["".join(p) for k in range(width) for p in itertools.product("01", repeat=k)]
    d = rng.random() if density is None else density
    ones = [p if p else "e" for p in prefixes if rng.random() < d]
    return "tab:" + "|".join(ones) if ones else "tab:x"


def small_cases(rng, n_per, widths=(1, 2, 3, 4, 5, 6), dirs="a"):
    """base-class cases at small widths: every address requested (exhaustive over the address space)."""
    cases = []
    for w in widths:
        for B in range(0, w + 1):
            for _ in range(n_per):
                xs = list(range(2**w))
                rng.shuffle(xs)
                ops = []
                for x in xs:
                    ops.append(rng.choice(dirs) + str(x))
                if len(dirs) > 1:
                    for _ in range(rng.randrange(0, 2**w)):
                        ops.append(rng.choice(dirs) + str(rng.randrange(2**w)))
                cases.append(["base", str(w), str(B), tab_salter(rng, w), " ".join(ops)])
    return cases


def ip4_case(rng, dirs="a", n_addr=8, B=None, pfx=None, addrs=None, salt=None, extra_ops=()):
    B = rng.choice(B4) if B is None else B
    pfx = (rng.choice(PREFIX_LISTS + [rand_prefix_list(rng)])) if pfx is None else pfx
    addrs = rng.choice(ADDR_LISTS) if addrs is None else addrs
    salt = rng.choice(SALTS) if salt is None else salt
    xs = addrs_sharing(rng, 32, n_addr) + special_addrs(rng, 32, 3)
    b = boundary_addrs(pfx) + (boundary_addrs(addrs) if addrs != "-" else [])
    if b:
        xs += rng.sample(b, min(len(b), 4))
    ops = [rng.choice(dirs) + str(x) for x in xs] + list(extra_ops)
    return ["ip4", str(B), "md5:" + salt, pfx, addrs, " ".join(ops)]


def ip6_case(rng, dirs="a", n_addr=3, B=None, salt=None):
    B = rng.choice(B6) if B is None else B
    salt = rng.choice(SALTS) if salt is None else salt
    xs = addrs_sharing(rng, 128, n_addr) + special_addrs(rng, 128, 3)
    return ["ip6", str(B), "md5:" + salt, " ".join(rng.choice(dirs) + str(x) for x in xs)]


def case_width(c):
    return int(c[1]) if c[0] == "base" else (32 if c[0] == "ip4" else 128)


def ops_of(c):
    return c[-1].split(" ")


def long_history(rng, n, B=None, pfx="D", addrs="-", salt=None):
    """one ip4 instance asked for n distinct addresses, then asked again for the first 200 (impl-only search: the
    extracted model's list-based memo is quadratic on such sizes)"""
    B = rng.choice([0, 8]) if B is None else B
    salt = rng.choice(SALTS) if salt is None else salt
    xs = list({rng.getrandbits(32) for _ in range(n)})
    ops = ["a%d" % x for x in xs] + ["a%d" % x for x in xs[:200]]
    return ["ip4", str(B), "md5:" + salt, pfx, addrs, " ".join(ops)]
