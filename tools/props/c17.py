"""C17: the dumped IP map is exactly the mapping that was applied."""
import base64
import ipaddress
import json
import vlib
from . import ipgen, ipref, linegen, textgen
from .textcommon import TEXT_MODEL_DEPS as MODEL_DEPS, TEXT_TRUSTED as TRUSTED_BASE, TEXT_ASSUMPTIONS as ASSUMPTIONS  # noqa

COQ_DEPS = ["lib/PPCore.v", "lib/Memo.v", "lib/MemoProofs.v", "lib/DumpProofs.v", "lib/Str.v", "lib/IpText.v", "model/IpModel.v", "model/TextModel.v"]
RULE = ("texts with addresses of both families (repeats, several addresses per network, small IPv6 values such as ::1, IPv4-mapped forms, masks, preserved addresses), host bits 0 / 8 / other, default and custom "
        "preserved lists, several salts; the dump produced after the run is compared line by line with the model's, and checked against the (input address, output address) pairs read from the output text; "
        "multi-file runs through anonymize_files / main -d; non-trivial = a distinct replaced address")


def check_dump(ctx, lines, outs, dump_text, salt, b4, b6, pfx, nets, label):
    pairs = set()
    netl0 = ipref.nets_of(nets)
    for l, o in zip(lines, outs):
        # pairs actually applied: address tokens of the input line and of the output line, matched by order
        # (IPv6 pass first; then IPv4 tokens that are neither mask-shaped nor inside a preserved network)
        i6, o6 = linegen.v6_tokens(l), linegen.v6_tokens(o)
        mid_in = l
        if len(i6) == len(o6):
            for (a1, e1, v1, _k1), (a2, e2, v2, _k2) in zip(i6, o6):
                pairs.add((str(ipaddress.IPv6Address(v1)), str(ipaddress.IPv6Address(v2))))
        i4 = [t for t in linegen.v4_tokens(l)]
        o4 = [t for t in linegen.v4_tokens(o)]
        if len(i4) == len(o4):
            for (a1, e1, v1), (a2, e2, v2) in zip(i4, o4):
                if ipref.is_mask_ref(v1) or any(ipref.in_net(v1, n) for n in netl0):
                    continue
                pairs.add((str(ipaddress.IPv4Address(v1)), str(ipaddress.IPv4Address(v2))))
        exp, tail = linegen.expected_ip_line(l, salt, b4, b6, pfx, nets)
        if True:
            continue
        # 6 first, then 4, as the pipeline does
        H = ipref.salter_of("md5:" + salt)
        for i, j, v, kind in linegen.v6_tokens(l):
            pairs.add((str(ipaddress.IPv6Address(v)), str(ipaddress.IPv6Address(ipref.image(H, 128, b6, [], v)))))
        mid, _ = linegen.expected_ip_line(l, salt, b4, b6, pfx, nets, fams="6")
        seeds = ipref.seeds_of("D" if pfx == "-" else pfx, nets, ipref.DEFAULTS)
        netl = ipref.nets_of(nets)
        for i, j, v in linegen.v4_tokens(mid):
            if ipref.is_mask_ref(v) or any(ipref.in_net(v, n) for n in netl):
                continue
            pairs.add((str(ipaddress.IPv4Address(v)), str(ipaddress.IPv4Address(ipref.image(H, 32, b4, seeds, v)))))
    rows = [tuple(r.split("\t")) for r in dump_text.split("\n") if r]
    if any(len(r) != 2 for r in rows):
        ctx.fail("malformed dump line", {"salt": salt}, dump_text[:300], label=label)
        return 0
    first, second = [r[0] for r in rows], [r[1] for r in rows]
    if len(set(first)) != len(first):
        d = [x for x in first if first.count(x) > 1][0]
        ctx.fail("original address %s appears twice in the dump" % d, {"lines": lines[:4], "salt": salt, "b4": b4, "b6": b6}, [r for r in rows if r[0] == d], label=label)
    if len(set(second)) != len(second):
        d = [x for x in second if second.count(x) > 1][0]
        ctx.fail("replacement %s appears twice in the dump" % d, {"lines": lines[:4], "salt": salt, "b4": b4, "b6": b6}, [r for r in rows if r[1] == d], label=label)
    rs = set(rows)
    for p in pairs:
        if p not in rs:
            alt = [r for r in rows if r[0] == p[0]]
            ctx.fail("address %s was replaced by %s in the output but the dump %s" % (p[0], p[1], ("lists it as %s" % alt[0][1]) if alt else "has no line for it"),
                     {"lines": [l for l in lines if p[0] in l or True][:3], "salt": salt, "b4": b4, "b6": b6, "prefixes": pfx, "networks": nets}, alt or dump_text[:200], p, label=label)
    # every listed pair agrees with the mapping function
    H = ipref.salter_of("md5:" + salt)
    seeds = ipref.seeds_of("D" if pfx == "-" else pfx, nets, ipref.DEFAULTS)
    for a, b in rows:
        try:
            ia = ipaddress.ip_address(a)
        except ValueError:
            ctx.fail("dump lists %r which is not an address" % a, {"salt": salt}, (a, b), label=label)
            continue
        expb = str(ipaddress.IPv4Address(ipref.image(H, 32, b4, seeds, int(ia)))) if ia.version == 4 else str(ipaddress.IPv6Address(ipref.image(H, 128, b6, [], int(ia))))
        if b != expb:
            ctx.fail("dump pair %s -> %s disagrees with the mapping function (gives %s)" % (a, b, expb), {"salt": salt, "b4": b4, "b6": b6, "prefixes": pfx, "networks": nets}, b, expb, label=label)
    return len(pairs)


def addr_lines(rng, n):
    lines = linegen.ip_lines(rng, n, near=False, tails=False)
    # several addresses per network, repeats, small IPv6 values
    base = rng.getrandbits(32) & ~0xFF
    extra = ["host %s and %s then %s\n" % tuple(str(ipaddress.IPv4Address(base | rng.randrange(256))) for _ in range(3)),
             "v6 ::1 ::2 ::102:304 1.2.3.4 ::ffff:102:304 :: ::1\n", "again %s %s\n" % (str(ipaddress.IPv4Address(base | 7)), str(ipaddress.IPv4Address(base | 7)))]
    return [l if l.endswith("\n") else l + "\n" for l in lines] + extra


def run(ctx):
    rng, q = ctx.rng, ctx.quick()
    cases = []
    for _ in range(20 if q else 300):
        salt, pfx, nets, b4 = rng.choice(ipgen.SALTS), rng.choice(["-", "D", ipgen.rand_prefix_list(rng), ipgen.net("1.2.3.4", 32)]), rng.choice(["-", "-", "P", ipgen.net("203.0.113.0", 24)]), rng.choice([0, 8, 8, 1, 24, 32])
        lines = addr_lines(rng, 8)
        # the addresses whose replacement is mask-shaped (pre-images of masks under this very salt and option set), and IPv6 literals with an IPv4 tail
        H = ipref.salter_of("md5:" + salt)
        seeds = ipref.seeds_of("D" if pfx == "-" else pfx, nets, ipref.DEFAULTS)
        for mval in rng.sample(["255.255.255.0", "0.0.0.255", "255.255.0.0", "63.255.255.255", "192.0.0.0", "255.255.255.252", "0.0.255.255"], 3):
            x = ipref.image(H, 32, b4, seeds, int(ipaddress.IPv4Address(mval)), undo=True)
            if not ipref.is_mask_ref(x) and not any(ipref.in_net(x, n) for n in ipref.nets_of(nets)):
                lines.append("route %s via 8.8.4.4\n" % ipaddress.IPv4Address(x))
        lines.append("map ::ffff:1.2.3.4 64:ff9b::10.0.0.1 ::1.2.3.4 then 5.6.7.8\n")
        cases.append(textgen.pipe(lines, flags="ad", salt=salt, pfx=pfx, nets=nets, b4=b4, b6=rng.choice([0, 8, 64, 128])))
    def project(c, o):
        """the dump text only (whether it matches what was applied is decided per side by the oracle below)"""
        return "RAISED" if o.startswith("RAISED") else o.split("\x04")[-1]
    m, i = ctx.correspond(cases, project=project, label="dump")
    nt = 0
    for c, out in zip(cases, i):
        if out.startswith("RAISED") or "\x04" not in out:
            ctx.fail("run raised or produced no dump", c[:11], out[:200], label="impl")
            continue
        body, dump = out.split("\x04")
        nt += check_dump(ctx, c[11:], body.split("\x03"), dump, c[2], int(c[8]), int(c[9]), c[6], c[7], "impl")
    # multi-file runs through the real entry points
    fcases, fmeta = [], []
    for k in range(4 if q else 40):
        files = [("f%d.cfg" % j if j % 2 else "d%d/f.cfg" % j, addr_lines(rng, 4)) for j in range(3)]
        b = rng.choice([0, 8, 16])
        salt = rng.choice(["s", "T", "netconan"])
        opts = {"ip": True, "salt": salt, "dump": True, "b4": b, "b6": b, "hostbits": b}
        if k % 3 == 2:      # the dump path is not fresh: it holds the map an earlier run (other salt) left there
            opts["dump_stale"] = "1.2.3.4\t77.1.2.3\n8.8.8.8\t9.9.9.9\n::1\t::2\n"
        tree = [[rel, base64.b64encode("".join(ls).encode()).decode(), {}] for rel, ls in files]
        fcases.append(["files", "main" if k % 2 else "api", json.dumps(opts), json.dumps(tree)])
        fmeta.append((files, salt, b))
    fo = vlib.run_impl(fcases)
    for c, o, (files, salt, b) in zip(fcases, fo, fmeta):
        try:
            r = json.loads(o)
        except Exception:
            ctx.fail("file-level run failed", c[:3], o[:300], label="impl-files")
            continue
        if r["raised"] or r["dump"] is None or r["errors"]:
            ctx.fail("file-level run raised / wrote no dump", c[:3], {k: r[k] for k in ("raised", "errors")}, label="impl-files")
            continue
        lines, outs = [], []
        for rel, ls in files:
            got = r["out"].get(rel)
            if got is None:
                continue
            gl = got.split("\n")
            lines += ls
            outs += [x + "\n" for x in gl[:-1]]
        nt += check_dump(ctx, lines, outs, r["dump"], salt, b, b, "-", "-", "impl-files")
    ctx.evaluations = sum(len(c) - 11 for c in cases) + len(fcases)
    ctx.distinct_nontrivial = nt
    ctx.search_stats = {"pipe_cases": len(cases), "file_runs": len(fcases), "replaced_addresses_checked": nt}
    ctx.samples = [{"lines": cases[0][11:13], "dump": i[0].split("\x04")[1][:200] if "\x04" in i[0] else None}]
