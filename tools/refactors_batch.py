#!/usr/bin/env python3
"""refactors_batch.py <name> [...]   (for `vp run --with-repo`): apply each behaviour-preserving rewrite of seeded_refactors/ to the repo copy and run the
quick checks of the properties that speak about the file it touches (all 19 take too long for 30 rewrites); print verdict per (rewrite, property)."""
import json
import os
import subprocess
import sys

here = os.path.dirname(os.path.dirname(os.path.abspath(__file__)))
repo = os.environ.get("VP_RUN_REPO") or os.environ["NETCONAN_REPO"]
env = dict(os.environ, NETCONAN_REPO=repo)
REL = {"juniper_secrets.py": ["C18", "C09", "C14"], "ip_anonymization.py": ["C01", "C02", "C04", "C05", "C06", "C17"],
       "sensitive_item_removal.py": ["C07", "C08", "C09", "C10", "C11", "C14"], "anonymize_files.py": ["C13", "C15", "C16"], "netconan.py": ["C19", "C16"]}
subprocess.run(["/venv/bin/python", os.path.join(here, "tools", "setup.py")], env=env, cwd=here, capture_output=True)
for name in sys.argv[1:]:
    d = os.path.join(here, "seeded_refactors", name)
    patch = os.path.join(d, "patch.diff")
    files = [l.split(" b/")[-1].strip() for l in open(patch) if l.startswith("diff --git")]
    props = sorted({p for f in files for k, v in REL.items() if f.endswith(k) for p in v})
    r = subprocess.run(["git", "-C", repo, "apply", patch], capture_output=True, text=True)
    if r.returncode != 0:
        print(name, "PATCH-FAILED", r.stderr[:200], flush=True)
        continue
    try:
        for p in props:
            r = subprocess.run(["/venv/bin/python", os.path.join(here, "tools", "check.py"), p], capture_output=True, text=True, cwd=here, env=env)
            out = r.stdout.split("\n")
            lines = [l for l in out if l.startswith(("VIOLATION", "OK "))]
            deg = " TIE-DEGRADED" if any(l.startswith("TIE-DEGRADED") for l in out) else ""
            print(name, p, r.returncode, (lines[-1] if lines else (r.stdout + r.stderr)[-200:])[:130] + deg, flush=True)
    finally:
        subprocess.run(["git", "-C", repo, "checkout", "--", "."], capture_output=True)
